package attest

import (
	"bytes"
	"encoding/hex"
	"encoding/json"
	"fmt"
	"os"
	"sort"
	"strings"
	"sync"
	"time"

	"github.com/oasisprotocol/oasis-core/go/common/sgx"
	"github.com/oasisprotocol/oasis-core/go/common/sgx/pcs"

	"verif/sim/core"
)

// Modes of the engine (one batch each).
const (
	ModeBitFlip     = "bitflip"     // single-bit flips: thorough = exact partition, quick = seeded sample
	ModeByteSweep   = "bytesweep"   // all 255 substitutions of a byte: thorough = exact partition
	ModeFaults      = "faults"      // seeded multi-byte edits, truncation, splices, signature/chain surgery, forgeries
	ModeClockPolicy = "clockpolicy" // verifier clock and policy sweeps against the reference model
)

// FlipChunkBits is the number of bit positions one thorough bit-flip run covers.
const FlipChunkBits = 512

// SweepChunkBytes is the number of byte positions one thorough byte-sweep run covers.
const SweepChunkBytes = 24

// Engine implements core.Engine and core.IndexedGenerator.
type Engine struct {
	Mode string
	// EnumRuns is the number of thorough runs of the batch (enumerating modes): the generator
	// refuses to run when the partition needs more runs than the batch has.
	EnumRuns int
}

// Knobs of a run: the (vector, region) work unit.
type Knobs struct {
	Mode   string `json:"mode"`
	Vector string `json:"vector"`
	Art    string `json:"art,omitempty"`
	// Unit describes the enumerated range (thorough) or "sample".
	Unit string `json:"unit,omitempty"`
	// Total bit/byte positions of the artefact, recorded by the first chunk only so that the
	// merged counters give the size of the enumerated space exactly once.
	CountTotal int `json:"count_total,omitempty"`
}

// unit is one enumerated work unit.
type unit struct {
	Vector, Art string
	From, To    int // positions [From, To)
	Total       int
}

// enumArts lists the artefacts whose positions are enumerated, in a fixed order. Collateral of
// tdx_tr is the same as that of tdx and the negative vectors' collateral is covered by the
// positive ones, so only their quotes are listed.
var enumArts = []struct{ Vector, Art string }{
	{"sgx", "quote"}, {"sgx", "tcb"}, {"sgx", "qe"}, {"sgx", "certs"},
	{"tdx", "quote"}, {"tdx", "tcb"}, {"tdx", "qe"}, {"tdx", "certs"},
	{"tdx_tr", "quote"}, {"tdx_ood", "quote"}, {"eppid", "quote"},
}

// sweepArts is the number of leading entries of enumArts covered by the byte sweep (the two
// complete positive vectors).
const sweepArts = 8

func units(c *corpus, perByte bool, chunk int) []unit {
	var us []unit
	arts := enumArts
	if perByte {
		arts = enumArts[:sweepArts]
	}
	for _, a := range arts {
		n := c.baseline(a.Vector).artLen(a.Art)
		if !perByte {
			n *= 8
		}
		for f := 0; f < n; f += chunk {
			t := f + chunk
			if t > n {
				t = n
			}
			us = append(us, unit{a.Vector, a.Art, f, t, n})
		}
	}
	return us
}

func (e Engine) checkRuns(us []unit, tier core.Tier) {
	if tier == core.Thorough && len(us) > e.EnumRuns {
		core.Harnessf("attest: %s needs %d thorough runs to enumerate every position but the batch has %d", e.Mode, len(us), e.EnumRuns)
	}
}

// Generate implements core.Engine (seeded sample; the enumerating partition needs the index).
func (e Engine) Generate(r *core.Rand, tier core.Tier) *core.Scenario {
	return e.generate(-1, r, tier)
}

// GenerateIndexed implements core.IndexedGenerator. The partition depends only on the run
// index and on constants of this package, not on n.
func (e Engine) GenerateIndexed(i, _ int, r *core.Rand, tier core.Tier) *core.Scenario {
	return e.generate(i, r, tier)
}

func (e Engine) generate(i int, r *core.Rand, tier core.Tier) *core.Scenario {
	c := getCorpus()
	g := &gen{c: c, r: r, caseVariants: os.Getenv("VERIF_C18_CASE") == "1"}
	sc := &core.Scenario{Engine: "attest"}
	var k Knobs
	var ops []Op
	switch e.Mode {
	case ModeBitFlip:
		us := units(c, false, FlipChunkBits)
		e.checkRuns(us, tier)
		if tier == core.Thorough && i >= 0 && i < len(us) {
			u := us[i]
			k = Knobs{Vector: u.Vector, Art: u.Art, Unit: fmt.Sprintf("bits[%d,%d)", u.From, u.To)}
			if u.From == 0 {
				k.CountTotal = u.Total
			}
			for p := u.From; p < u.To; p++ {
				ops = append(ops, Op{K: "flip", Art: u.Art, Pos: p})
			}
		} else {
			k, ops = g.sampleFlips(tier == core.Thorough)
		}
	case ModeByteSweep:
		us := units(c, true, SweepChunkBytes)
		e.checkRuns(us, tier)
		if tier == core.Thorough && i >= 0 && i < len(us) {
			u := us[i]
			k = Knobs{Vector: u.Vector, Art: u.Art, Unit: fmt.Sprintf("bytes[%d,%d)", u.From, u.To)}
			if u.From == 0 {
				k.CountTotal = u.Total
			}
			for p := u.From; p < u.To; p++ {
				ops = append(ops, Op{K: "sweep", Art: u.Art, Pos: p})
			}
		} else {
			a := enumArts[r.Intn(sweepArts)]
			k = Knobs{Vector: a.Vector, Art: a.Art, Unit: "sample"}
			b := c.baseline(a.Vector)
			for j := 0; j < 3; j++ {
				ops = append(ops, Op{K: "sweep", Art: a.Art, Pos: g.pos(b, a.Art)})
			}
		}
	case ModeFaults:
		k.Vector = []string{"sgx", "tdx", "tdx_tr", "tdx_ood", "eppid"}[r.Pick([]int{5, 5, 2, 1, 1})]
		b := c.baseline(k.Vector)
		n := r.Range(30, 70)
		for j := 0; j < n; j++ {
			ops = append(ops, g.fault(b))
		}
	case ModeClockPolicy:
		k.Vector = []string{"sgx", "tdx", "tdx_tr", "tdx_ood", "eppid"}[r.Pick([]int{6, 6, 3, 2, 1})]
		b := c.baseline(k.Vector)
		n := r.Range(60, 140)
		for j := 0; j < n; j++ {
			ops = append(ops, g.clockPolicy(b))
		}
	default:
		core.Harnessf("attest: unknown engine mode %q", e.Mode)
	}
	k.Mode = e.Mode
	sc.Knobs = core.MustJSON(k)
	for j := range ops {
		sc.Ops = append(sc.Ops, core.MustJSON(&ops[j]))
	}
	return sc
}

// ---- generation ----

type gen struct {
	c            *corpus
	r            *core.Rand
	caseVariants bool
}

// pos draws a byte position of an artefact: uniform, or near a structural boundary.
func (g *gen) pos(b *baseline, art string) int {
	n := b.artLen(art)
	if art == "quote" && g.r.Chance(1, 2) {
		// Stratify by region so that the small regions are hit as well.
		var names []string
		for _, rn := range regionOrder {
			if s, ok := b.Q.L.Regions[rn]; ok && s.Len > 0 {
				names = append(names, rn)
			}
		}
		s := b.Q.L.Regions[names[g.r.Intn(len(names))]]
		if g.r.Chance(1, 3) {
			return s.Off + []int{0, s.Len - 1}[g.r.Intn(2)]
		}
		return s.Off + g.r.Intn(s.Len)
	}
	if (art == "tcb" || art == "qe") && g.r.Chance(1, 4) {
		// Around the body/signature split.
		p := b.bodyLen(art) + g.r.Range(-8, 8)
		if p >= 0 && p < n {
			return p
		}
	}
	return g.r.Intn(n)
}

func (g *gen) sampleFlips(thorough bool) (Knobs, []Op) {
	a := enumArts[g.r.Pick([]int{8, 5, 3, 4, 8, 5, 3, 4, 3, 2, 1})]
	b := g.c.baseline(a.Vector)
	k := Knobs{Vector: a.Vector, Art: a.Art, Unit: "sample"}
	n := 420
	var ops []Op
	seen := map[int]bool{}
	for len(ops) < n {
		p := g.pos(b, a.Art)*8 + g.r.Intn(8)
		if seen[p] {
			continue
		}
		seen[p] = true
		if thorough && g.r.Chance(1, 2) {
			// Beyond the exact single-bit partition: pairs of bits.
			q := g.pos(b, a.Art)*8 + g.r.Intn(8)
			if g.r.Chance(1, 2) {
				q = (p/8)*8 + g.r.Intn(8)
			}
			ops = append(ops, Op{K: "flip2", Art: a.Art, Pos: p, N: q})
			continue
		}
		ops = append(ops, Op{K: "flip", Art: a.Art, Pos: p})
	}
	return k, ops
}

func (g *gen) bytesHex(n int) string {
	b := g.r.Bytes(n)
	switch g.r.Intn(6) {
	case 0:
		for i := range b {
			b[i] = 0
		}
	case 1:
		for i := range b {
			b[i] = 0xff
		}
	case 2:
		for i := range b {
			b[i] = ' '
		}
	}
	return hex.EncodeToString(b[:n])
}

func (g *gen) art() string {
	return []string{"quote", "tcb", "qe", "certs"}[g.r.Pick([]int{10, 4, 2, 4})]
}

var jsonTokens = []string{`"svn":`, `"tcbEvaluationDataNumber":`, `"issueDate":"`, `"nextUpdate":"`, `"tcbStatus":"`, `"fmspc":"`, `"version":`, `"id":"`, `"pcesvn":`, `"isvsvn":`, `"mrsigner":"`, `"isvprodid":`, `"attributesMask":"`, `"miscselectMask":"`, `"tcbDate":"`}

var (
	sigSites    = []string{"quote.sig", "quote.qesig", "tcb.sig", "qe.sig", "pck0", "pck1", "pck2", "tcbc0", "tcbc1"}
	sigSubs     = []string{"r0", "s0", "rn", "sn", "neg", "rneg", "splusn", "swap", "ff", "zero", "other", "r-other", "s-other"}
	chainSubs   = []string{"swap01", "swap12", "swap02", "rot", "drop0", "drop1", "droplast", "dup0", "duplast", "empty", "leaf=sgx", "leaf=tdx", "leaf=tdx_tr", "leaf=tdx_ood", "leaf=tcbsign", "leaf=platformca", "inter=tcbsign", "inter=root", "extra=tcbsign", "extra=root", "nopem", "badtype", "crlf", "junk-between", "reencode"}
	forgeQuote  = []string{"att", "att+qerd", "att+qe+pck/ownchain", "att+qe+pck/intelchain", "att+qe+pck/selfsigned", "att+qe+pck/ownroot-intelinter"}
	forgeDocs   = []string{"tcb", "qe", "tcb+qe"}
	forgeChains = []string{"ownchain", "intelroot", "selfsigned", "keepcerts"}
	jsonTweaks  = []string{"status", "evalnum", "issue", "space"}
	spliceRegs  = []string{rHeader, rReport, rSig, rAttKey, "sig+attkey", rQERep, rQESig, "qereport+qesig", rAuth, rCD, "qe-all", "sigdata"}
	quoteNames  = []string{"sgx", "tdx", "tdx_tr", "tdx_ood", "eppid"}
	tcbNames    = []string{"sgx_00606A", "tdx_50806F", "tdx_C0806F"}
	qeNames     = []string{"qe_sgx", "qe_tdx", "qe_tdx2"}
)

func (g *gen) fault(b *baseline) Op {
	r := g.r
	switch r.Pick([]int{20, 8, 6, 8, 4, 4, 12, 12, 10, 12, 4}) {
	case 0: // multi-byte edit
		art := g.art()
		return Op{K: "edit", Art: art, Pos: g.pos(b, art), Hex: g.bytesHex(r.Range(1, 16))}
	case 1: // semantic edit of a JSON document or of the PEM text
		art := []string{"tcb", "qe"}[r.Intn(2)]
		body := b.TCB.Body
		if art == "qe" {
			body = b.QE.Body
		}
		tok := jsonTokens[r.Intn(len(jsonTokens))]
		var at []int
		for off := 0; ; {
			i := bytes.Index(body[off:], []byte(tok))
			if i < 0 {
				break
			}
			at = append(at, off+i+len(tok))
			off += i + len(tok)
		}
		if len(at) == 0 {
			return Op{K: "edit", Art: art, Pos: g.pos(b, art), Hex: g.bytesHex(2)}
		}
		p := at[r.Intn(len(at))] + r.Intn(3)
		repl := []string{"30", "31", "39", "35", "7d", "22", "2c", "3030", "3939"}[r.Intn(9)]
		return Op{K: "edit", Art: art, Pos: p, Hex: repl}
	case 2: // truncation
		art := g.art()
		n := b.artLen(art)
		cut := r.Intn(n)
		switch r.Intn(4) {
		case 0:
			cut = n - r.Range(1, 4)
		case 1:
			if art == "quote" {
				names := regionOrder[:len(regionOrder)-1]
				s := b.Q.L.Regions[names[r.Intn(len(names))]]
				cut = s.end() - r.Intn(2)
			}
		}
		if cut < 0 {
			cut = 0
		}
		return Op{K: "trunc", Art: art, N: cut}
	case 3: // extension
		art := g.art()
		sub := "raw"
		switch art {
		case "quote":
			sub = []string{"raw", "tail", "cd", "auth"}[r.Intn(4)]
		case "tcb", "qe":
			sub = []string{"raw", "body"}[r.Intn(2)]
		}
		x := g.bytesHex(r.Range(1, 48))
		if r.Chance(1, 3) {
			x = []string{"00", "0a", "20", "0d0a", "7d", "2d2d2d2d2d424547494e"}[r.Intn(6)]
		}
		return Op{K: "ext", Art: art, Sub: sub, Hex: x}
	case 4:
		art := g.art()
		return Op{K: "ins", Art: art, Pos: g.pos(b, art), Hex: g.bytesHex(r.Range(1, 8))}
	case 5:
		art := g.art()
		return Op{K: "del", Art: art, Pos: g.pos(b, art), N: r.Range(1, 8)}
	case 6: // splice between vectors
		switch r.Pick([]int{3, 3, 1, 1, 3, 6}) {
		case 0:
			return Op{K: "splice", Art: "tcb", Src: tcbNames[r.Intn(3)], Sub: []string{"", "", "sig", "body"}[r.Intn(4)]}
		case 1:
			return Op{K: "splice", Art: "qe", Src: qeNames[r.Intn(3)], Sub: []string{"", "", "sig", "body"}[r.Intn(4)]}
		case 2:
			return Op{K: "splice", Art: "cross"}
		case 3:
			return Op{K: "splice", Art: "certs", Src: "certs_bad"}
		case 4:
			return Op{K: "splice", Art: "quote", Src: quoteNames[r.Intn(len(quoteNames))]}
		default:
			return Op{K: "splice", Art: "quote", Src: quoteNames[r.Intn(len(quoteNames))], Reg: spliceRegs[r.Intn(len(spliceRegs))]}
		}
	case 7:
		site := sigSites[r.Intn(len(sigSites))]
		op := Op{K: "sigsub", Reg: site, Sub: sigSubs[r.Intn(len(sigSubs))]}
		if strings.Contains(op.Sub, "other") && r.Chance(1, 2) {
			op.Src = sigSites[r.Intn(4)]
		}
		return op
	case 8:
		return Op{K: "chain", Art: []string{"quote", "certs"}[r.Intn(2)], Sub: chainSubs[r.Intn(len(chainSubs))]}
	case 9:
		seed := hex.EncodeToString(r.Bytes(8))
		if r.Chance(3, 5) {
			return Op{K: "forge", Sub: forgeQuote[r.Intn(len(forgeQuote))], Reg: []string{"rd", "id"}[r.Intn(2)], Pos: r.Intn(64), Hex: seed}
		}
		return Op{K: "forge", Sub: forgeDocs[r.Intn(3)] + "/" + forgeChains[r.Intn(4)], Reg: jsonTweaks[r.Intn(4)], Hex: seed}
	default:
		art := g.art()
		p := g.pos(b, art)*8 + r.Intn(8)
		return Op{K: "flip2", Art: art, Pos: p, N: g.pos(b, art)*8 + r.Intn(8)}
	}
}

var (
	timeBases = []string{"doc", "tcb.issue", "tcb.next", "tcb.exp", "qe.issue", "qe.next", "qe.exp",
		"pck0.nb", "pck0.na", "pck1.nb", "pck1.na", "pck2.nb", "pck2.na", "tcbc0.nb", "tcbc0.na", "tcbc1.nb", "tcbc1.na"}
	timeOffs = []int64{0, 0, 1, -1, int64(time.Second), -int64(time.Second), 999999999, -999999999,
		int64(time.Hour), -int64(time.Hour), int64(day), -int64(day), 31 * int64(day), -31 * int64(day), 400 * int64(day), -400 * int64(day)}
	farTimes = []int64{0, 1, 946684800, 4102444800, 32503680000, 253402300799, -62135596799, -1, 1 << 40}
	periods  = []int{0, 1, 29, 30, 31, 90, 365, 450, 1000, 3000, 65535}
)

func (g *gen) time() *TimeSpec {
	r := g.r
	if r.Chance(1, 10) {
		return &TimeSpec{Base: "unix", Off: farTimes[r.Intn(len(farTimes))]}
	}
	return &TimeSpec{Base: timeBases[r.Intn(len(timeBases))], Off: timeOffs[r.Intn(len(timeOffs))]}
}

func (g *gen) list() []string {
	r := g.r
	toks := []string{"self", "other", "junk", "prefix", "empty"}
	if g.caseVariants {
		toks = append(toks, "selfcase", "selfcase")
	}
	switch r.Intn(5) {
	case 0:
		return []string{"self"}
	case 1:
		return []string{"other"}
	case 2:
		return []string{"other", toks[r.Intn(len(toks))], "self"}[:r.Range(1, 3)]
	case 3:
		return []string{toks[r.Intn(len(toks))]}
	default:
		return []string{toks[r.Intn(len(toks))], toks[r.Intn(len(toks))]}
	}
}

// policy draws a policy; doc is the vector's documented one.
func (g *gen) policy(tdx bool) *PolSpec {
	r := g.r
	p := &PolSpec{Period: 30, Min: 12}
	if tdx {
		p.TDX = "any"
	}
	if r.Chance(1, 3) {
		return p // documented policy
	}
	if r.Chance(1, 25) {
		return &PolSpec{Nil: true}
	}
	if r.Chance(1, 20) {
		p.Disabled = true
	}
	if r.Chance(1, 2) {
		p.Period = periods[r.Intn(len(periods))]
	}
	if r.Chance(1, 2) {
		p.MinRel = []string{"", "tcb", "qe", "lo", "hi"}[r.Intn(5)]
		if p.MinRel == "" {
			p.Min = []int64{0, 1, 12, 13, 15, 16, 17, 18, 100, 0xffffffff}[r.Intn(10)]
		} else {
			p.Min = int64(r.Range(-2, 2))
		}
	}
	if r.Chance(1, 4) {
		p.WL = g.list()
	}
	if r.Chance(1, 4) {
		p.BL = g.list()
	}
	if r.Chance(1, 3) {
		switch r.Intn(4) {
		case 0:
			p.TDX = ""
		case 1:
			p.TDX = "any"
		default:
			p.TDX = "mods"
			n := r.Range(1, 3)
			for i := 0; i < n; i++ {
				p.Mods = append(p.Mods, ModSpec{Seam: []string{"", "self", "other"}[r.Intn(3)], Signer: []string{"self", "self", "other"}[r.Intn(3)]})
			}
		}
	}
	return p
}

// bundleBases are collateral-level configurations that the reference model accepts at time
// "in" (one hour after the later issue date) under the documented policy with the given period:
// the focused generator varies exactly one dimension of them, so that every single check
// becomes the deciding one somewhere (e.g. the TCB info expiry with a QE identity that is still
// valid, which no complete test vector offers).
var bundleBases = []struct {
	BundleSpec
	Period int
}{
	{BundleSpec{TEE: "sgx", TCB: "sgx_00606A", QE: "qe_sgx", From: "sgx", TdxMod: -1, TdxModSVN: -1}, 30},
	{BundleSpec{TEE: "tdx", TCB: "tdx_C0806F", QE: "qe_tdx2", From: "tdx", TdxMod: -1, TdxModSVN: -1}, 30},
	{BundleSpec{TEE: "tdx", TCB: "tdx_C0806F", QE: "qe_tdx2", From: "tdx_tr", TdxMod: -1, TdxModSVN: -1}, 30},
	{BundleSpec{TEE: "tdx", TCB: "tdx_C0806F", QE: "qe_tdx", From: "tdx", TdxMod: -1, TdxModSVN: -1}, 600},
	{BundleSpec{TEE: "tdx", TCB: "tdx_50806F", QE: "qe_tdx2", From: "tdx", TdxMod: 0, TdxModSVN: -1}, 450},
	{BundleSpec{TEE: "tdx", TCB: "tdx_50806F", QE: "qe_tdx", From: "tdx_ood", TdxMod: -1, TdxModSVN: -1}, 30},
}

var basesOnce sync.Once

// checkBases asserts (with the reference model only) that the bases are acceptable.
func (g *gen) checkBases() {
	basesOnce.Do(func() {
		for i := range bundleBases {
			bs := bundleBases[i].BundleSpec
			bs.Certs, bs.FMSPC, bs.Level = "certs", "tcb", 0
			pf, tcb, qe, from := g.c.bundlePlatform(&bs)
			pol := (&PolSpec{Period: bundleBases[i].Period, Min: 12, TDX: "any"}).resolve(tcb, qe, from.MrSeam, from.MrSigner)
			ci := g.c.CertsCI["certs"]
			ts, _ := resolveTime(&TimeSpec{Base: "in"}, 0, from, tcb, qe, ci, pol.Period)
			if f := bundleFails(pf, tcb, qe, "certs", ci, ts, pol); len(f) > 0 {
				core.Harnessf("attest: collateral base %d is not acceptable to the reference model: %v", i, f)
			}
		}
	})
}

var nearOffs = []int64{0, 0, 1, -1, int64(time.Second), -int64(time.Second), 999999999, -999999999}

func (g *gen) focusedBundle() Op {
	g.checkBases()
	r := g.r
	base := bundleBases[r.Intn(len(bundleBases))]
	bs := base.BundleSpec
	bs.Certs, bs.FMSPC, bs.Level = "certs", "tcb", 0
	pol := &PolSpec{Period: base.Period, Min: 12}
	if bs.TEE == "tdx" {
		pol.TDX = "any"
	}
	t := &TimeSpec{Base: "in"}
	switch r.Intn(11) {
	case 0, 1, 2: // one time boundary
		t = &TimeSpec{Base: []string{"tcb.issue", "tcb.exp", "qe.issue", "qe.exp", "tcb.issue", "tcb.exp", "qe.issue", "qe.exp", "tcbc0.nb", "tcbc0.na", "tcbc1.nb", "tcbc1.na", "tcb.next", "qe.next"}[r.Intn(14)], Off: nearOffs[r.Intn(len(nearOffs))]}
	case 3: // validity period against a boundary
		pol.Period = []int{0, 1, 29, 31, 90, base.Period + 1, 65535}[r.Intn(7)]
		t = &TimeSpec{Base: []string{"tcb.exp", "qe.exp", "tcb.issue", "qe.issue", "in"}[r.Intn(5)], Off: nearOffs[r.Intn(len(nearOffs))]}
	case 4: // minimum evaluation data number
		pol.MinRel = []string{"lo", "hi", "tcb", "qe"}[r.Intn(4)]
		pol.Min = int64(r.Range(-1, 1))
	case 5: // platform FMSPC
		bs.FMSPC = []string{"", "byte0", "byte1", "byte2", "byte3", "byte4", "byte5", "short", "long", "empty", "bit"}[r.Intn(11)]
	case 6: // TCB level and its neighbourhood
		bs.Level = r.Intn(5)
		if r.Chance(2, 3) {
			bs.Comp = r.Intn(33)
			bs.Delta = []int{-1, 1}[r.Intn(2)]
		}
	case 7: // TDX module
		bs.TdxMod = []int{0, 1, 2, 3, 4, 9, 16}[r.Intn(7)]
		bs.TdxModSVN = []int{0, 1, 2, 3, 4, 5, 255}[r.Intn(7)]
	case 8: // QE report against the QE identity
		bs.QEEdit = []string{"isvsvn", "isvsvn", "prodid", "mrsigner", "misc", "attr"}[r.Intn(6)]
		bs.QEVal = r.Intn(130)
		if bs.QEEdit == "isvsvn" {
			bs.QEVal = []int{0, 1, 2, 3, 4, 5, 6, 7, 8, 65535}[r.Intn(10)]
		}
	case 9: // FMSPC lists
		if r.Bool() {
			pol.BL = g.list()
		} else {
			pol.WL = g.list()
		}
	default: // signer chain / TEE kind
		if r.Bool() {
			bs.Certs = "certs_bad"
		} else {
			bs.TEE = map[string]string{"sgx": "tdx", "tdx": "sgx"}[bs.TEE]
		}
	}
	return Op{K: "bundle", B: &bs, T: t, Pol: pol}
}

func (g *gen) focusedTP(b *baseline) Op {
	r := g.r
	tdx := b.Q.TEE == "tdx"
	pol := &PolSpec{Period: 30, Min: 12}
	if tdx {
		pol.TDX = "any"
	}
	op := Op{K: "tp", T: &TimeSpec{Base: "doc"}, Pol: pol}
	switch r.Intn(9) {
	case 0, 1, 2:
		op.T = &TimeSpec{Base: timeBases[r.Intn(len(timeBases))], Off: nearOffs[r.Intn(len(nearOffs))]}
		if r.Chance(1, 2) {
			pol.Period = []int{0, 1, 29, 31, 90, 3000}[r.Intn(6)]
		}
	case 3:
		pol.MinRel = []string{"lo", "hi", "tcb", "qe"}[r.Intn(4)]
		pol.Min = int64(r.Range(-1, 1))
	case 4:
		if r.Bool() {
			pol.BL = g.list()
		} else {
			pol.WL = g.list()
		}
	case 5:
		pol.TDX = []string{"", "any", "mods", "mods"}[r.Intn(4)]
		if pol.TDX == "mods" {
			n := r.Range(1, 3)
			for i := 0; i < n; i++ {
				pol.Mods = append(pol.Mods, ModSpec{Seam: []string{"", "self", "other"}[r.Intn(3)], Signer: []string{"self", "self", "other"}[r.Intn(3)]})
			}
		}
	case 6:
		if r.Bool() {
			pol.Disabled = true
		} else {
			op.Pol = &PolSpec{Nil: true}
		}
	case 7: // other genuine collateral (other platform, other TEE, older QE identity, other signer)
		op.B = &BundleSpec{TCB: b.V.TCB, QE: b.V.QE, Certs: "certs"}
		switch r.Intn(3) {
		case 0:
			op.B.TCB = tcbNames[r.Intn(3)]
		case 1:
			op.B.QE = qeNames[r.Intn(3)]
		default:
			op.B.Certs = "certs_bad"
		}
		if r.Bool() {
			pol.Period = 600
			op.T = &TimeSpec{Base: []string{"doc", "in"}[r.Intn(2)]}
		}
	default:
		pol.Period = periods[r.Intn(len(periods))]
		op.T = &TimeSpec{Base: []string{"doc", "in", "tcb.exp", "qe.exp"}[r.Intn(4)], Off: nearOffs[r.Intn(len(nearOffs))]}
	}
	return op
}

func (g *gen) clockPolicy(b *baseline) Op {
	r := g.r
	tdx := b.Q.TEE == "tdx"
	if r.Chance(1, 2) {
		if r.Chance(2, 5) {
			return g.focusedTP(b)
		}
		return g.focusedBundle()
	}
	switch r.Pick([]int{10, 2, 12}) {
	case 0: // quote level, genuine combination (mostly the documented one)
		op := Op{K: "tp", T: g.time(), Pol: g.policy(tdx)}
		if r.Chance(1, 4) {
			op.B = &BundleSpec{TCB: tcbNames[r.Intn(3)], QE: qeNames[r.Intn(3)], Certs: []string{"certs", "certs", "certs_bad"}[r.Intn(3)]}
			if r.Chance(1, 2) {
				op.B.TCB = b.V.TCB
			}
			if r.Chance(1, 2) {
				op.B.QE = b.V.QE
			}
		}
		if r.Chance(1, 3) {
			op.T.Off = []int64{0, 1, -1, int64(time.Second), -int64(time.Second)}[r.Intn(5)]
		}
		return op
	case 1: // PCK chain only
		t := g.time()
		if r.Chance(2, 3) {
			t.Base = []string{"pck0.nb", "pck0.na", "pck1.nb", "pck1.na", "pck2.nb", "pck2.na"}[r.Intn(6)]
			t.Off = []int64{0, 1, -1, int64(time.Second), -int64(time.Second)}[r.Intn(5)]
		}
		return Op{K: "pck", T: t}
	default: // collateral level with harness-chosen platform parameters
		bs := &BundleSpec{TEE: b.Q.TEE, TCB: b.V.TCB, QE: b.V.QE, Certs: "certs", From: b.V.Quote, Level: -1, TdxMod: -1, TdxModSVN: -1}
		if b.Q.Chain == nil {
			bs.From = "sgx"
		}
		if r.Chance(1, 2) {
			// Other genuine documents (the combinations in which the TCB info rather than the QE
			// identity decides are among them).
			bs.TCB = tcbNames[r.Intn(3)]
			bs.QE = qeNames[r.Intn(3)]
			if r.Chance(2, 3) {
				// Keep the TEE kinds consistent most of the time.
				if strings.HasPrefix(bs.TCB, "tdx") {
					bs.TEE, bs.QE = "tdx", []string{"qe_tdx", "qe_tdx2"}[r.Intn(2)]
					if !tdx {
						bs.From = "tdx"
					}
				} else {
					bs.TEE, bs.QE, bs.From = "sgx", "qe_sgx", "sgx"
				}
			}
		}
		if r.Chance(1, 12) {
			bs.TEE = []string{"sgx", "tdx"}[r.Intn(2)]
		}
		if r.Chance(1, 10) {
			bs.Certs = "certs_bad"
		}
		// FMSPC: mostly what the TCB info says so that the later checks are reached.
		bs.FMSPC = "tcb"
		if r.Chance(1, 4) {
			bs.FMSPC = []string{"", "byte0", "byte1", "byte2", "byte3", "byte4", "byte5", "short", "long", "empty", "bit"}[r.Intn(11)]
		}
		if r.Chance(2, 3) {
			bs.Level = r.Intn(5)
			if r.Chance(2, 3) {
				bs.Comp = r.Intn(33)
				bs.Delta = []int{-1, 1, -1, 1, -2, 5, 200}[r.Intn(7)]
			}
		}
		if r.Chance(1, 4) {
			bs.TdxMod = []int{0, 1, 2, 3, 4, 9, 16}[r.Intn(7)]
			bs.TdxModSVN = []int{0, 1, 2, 3, 4, 5, 255}[r.Intn(7)]
		}
		if r.Chance(1, 4) {
			bs.QEEdit = []string{"isvsvn", "isvsvn", "prodid", "mrsigner", "misc", "attr"}[r.Intn(6)]
			bs.QEVal = r.Intn(130)
			if bs.QEEdit == "isvsvn" {
				bs.QEVal = []int{0, 1, 2, 3, 4, 5, 6, 7, 8, 65535}[r.Intn(10)]
			}
		}
		op := Op{K: "bundle", B: bs, T: g.time(), Pol: g.policy(bs.TEE == "tdx")}
		op.Pol.Nil = false // TCBBundle.Verify requires a policy
		if r.Chance(1, 2) {
			// Long validity so that documents of different age overlap.
			op.Pol.Period = []int{450, 1000, 3000}[r.Intn(3)]
		}
		return op
	}
}

// ---- execution ----

// refResult is what the unmodified vector verified to (sanity pass).
type refResult struct {
	Accepted   bool
	Identity   sgx.EnclaveIdentity
	ReportData []byte
}

var (
	sanityOnce sync.Once
	refs       map[string]*refResult // by quote name (= vector name)
)

func docPolicy(v *vector) *PolSpec {
	p := &PolSpec{Period: 30, Min: 12}
	if v.TDX {
		p.TDX = "any"
	}
	return p
}

type verdict struct {
	Accepted bool
	VQ       *sgx.VerifiedQuote
	Err      error
	Panic    interface{}
	Stack    string
}

func verifyTrial(t *trial, pol *pcs.QuotePolicy, ts time.Time) *verdict {
	v := &verdict{}
	v.Panic, v.Stack = core.Guard(func() {
		qb := pcs.QuoteBundle{Quote: t.Quote, TCB: *makeBundle(t.TCBBody, t.TCBSig, t.QEBody, t.QESig, t.Certs)}
		v.VQ, v.Err = qb.Verify(pol, ts)
	})
	v.Accepted = v.Panic == nil && v.Err == nil && v.VQ != nil
	return v
}

// sanity verifies oracle part (1): the unmodified vectors behave as documented.
func sanity(c *corpus) {
	sanityOnce.Do(func() {
		refs = map[string]*refResult{}
		for _, name := range vectorNames {
			b := c.baseline(name)
			pol := docPolicy(b.V).resolve(b.TCB, b.QE, b.Q.MrSeam, b.Q.MrSigner)
			v := verifyTrial(b.trial(), pol.toPCS(), time.Unix(b.V.TS, 0))
			if v.Panic != nil {
				core.Harnessf("attest: unmodified vector %s panics: %v", name, v.Panic)
			}
			if v.Accepted != b.V.Accept {
				core.Harnessf("attest: unmodified vector %s: accepted=%v (err=%v), documented accepted=%v", name, v.Accepted, v.Err, b.V.Accept)
			}
			fails := quoteFails(b.Q, b.TCB, b.QE, b.V.Certs, b.CI, time.Unix(b.V.TS, 0), pol)
			if (len(fails) == 0) != b.V.Accept {
				core.Harnessf("attest: reference model disagrees with the documented verdict of vector %s: fails=%v", name, fails)
			}
			rr := &refResult{Accepted: v.Accepted}
			if v.Accepted {
				rr.Identity = v.VQ.Identity
				rr.ReportData = append([]byte(nil), v.VQ.ReportData...)
				if !bytes.Equal(rr.ReportData, b.Q.ReportData) {
					core.Harnessf("attest: vector %s: verified report data is not the report data in the quote", name)
				}
			}
			refs[name] = rr
		}
	})
}

var rejectClasses = []struct{ sub, label string }{
	{"invalid quote length", "parse-length"}, {"invalid quote body length", "parse-length"},
	{"unsupported quote version", "parse-version"}, {"invalid quote version", "parse-version"},
	{"unsupported QE vendor", "parse-vendor"}, {"reserved field", "parse-reserved"},
	{"unsupported TEE type", "parse-tee"}, {"malformed TDX attributes", "parse-tdattr"},
	{"unexpected trailing data", "parse-trailing"}, {"unsupported attestation key type", "parse-keytype"},
	{"invalid ECDSA-P256 quote signature", "parse-sig"}, {"unexpected certification data", "parse-certdata"},
	{"authentication data size", "parse-auth"}, {"certification data", "parse-certdata"},
	{"missing report", "parse-sig"}, {"bad X509 certificate in PCK chain", "pck-parse"},
	{"PCS quotes are disabled", "policy-disabled"}, {"debug/production", "debug"},
	{"TEE type not allowed", "policy-tdx-nil"}, {"TDX module not allowed", "policy-tdx-module"},
	{"no PCK certificate chain", "pck-missing"}, {"unexpected certificate chain length", "chain-length"},
	{"failed to verify PCK certificate chain", "pck-chain"}, {"unexpected root", "chain-root"},
	{"bad X509 SGX extensions", "pck-ext"}, {"FMSPC value", "pck-ext"}, {"missing FMSPC", "pck-ext"}, {"bad TCB", "pck-ext"},
	{"QE report signature", "qe-report-sig"}, {"QE report data", "qe-report-data"},
	{"invalid attestation public key", "attkey"}, {"failed to verify quote signature", "quote-sig"},
	{"bad X509 certificate in TCB bundle", "tcbcert-parse"}, {"TCB info certificate chain", "tcbcert-chain"},
	{"TCB signature verification failed", "tcb-sig"}, {"malformed signature", "tcb-sig-format"}, {"encoding/hex", "tcb-sig-format"},
	{"malformed QE identity body", "qe-json"}, {"malformed TCB info body", "tcb-json"},
	{"unexpected QE identity ID", "qe-id"}, {"QE identity version", "qe-version"},
	{"QE identity issue date in the future", "qe-future"}, {"QE identity expired", "qe-expired"},
	{"invalid QE evaluation data number", "qe-evalnum"}, {"invalid QE", "qe-report-match"}, {"QE TCB", "qe-level"},
	{"unexpected TCB info identifier", "tcb-id"}, {"TCB info version", "tcb-version"},
	{"TCB info issue date in the future", "tcb-future"}, {"TCB info expired", "tcb-expired"},
	{"invalid TCB evaluation data number", "tcb-evalnum"}, {"not whitelisted", "tcb-whitelist"}, {"blacklisted", "tcb-blacklist"},
	{"FMSPC", "tcb-fmspc"}, {"TCB level not supported", "tcb-level"}, {"TDX module", "tdx-module-level"},
	{"not up to date", "tcb-level"}, {"issue date", "date-format"}, {"next update", "date-format"},
}

func rejectClass(err error) string {
	if err == nil {
		return "-"
	}
	s := err.Error()
	for _, c := range rejectClasses {
		if strings.Contains(s, c.sub) {
			return c.label
		}
	}
	return "other"
}

func viol(kind, fp, detail string) *core.Violation {
	return &core.Violation{Property: "C18", Kind: kind, Fingerprint: fp, Detail: detail}
}

func opClass(op *Op) string {
	switch op.K {
	case "forge":
		w, _, _ := strings.Cut(op.Sub, "/")
		return "forge." + strings.ReplaceAll(w, "+", "_")
	case "splice":
		if op.Art == "quote" && op.Reg != "" {
			return "splice.quote-region"
		}
		return "splice." + op.Art
	case "sigsub":
		return "sigsub." + op.Sub
	case "chain":
		s, _, _ := strings.Cut(op.Sub, "=")
		return "chain." + op.Art + "." + s
	case "ext":
		return "ext." + op.Sub
	}
	return op.K
}

func sameResult(vq *sgx.VerifiedQuote, ref *refResult) bool {
	return vq.Identity == ref.Identity && bytes.Equal(vq.ReportData, ref.ReportData)
}

// Execute implements core.Engine.
func (e Engine) Execute(sc *core.Scenario, st *core.Stats) (*core.Violation, bool) {
	c := getCorpus()
	sanity(c)
	var k Knobs
	if err := json.Unmarshal(sc.Knobs, &k); err != nil {
		core.Harnessf("attest: bad knobs: %v", err)
	}
	b := c.baseline(k.Vector)
	if k.CountTotal > 0 {
		st.Add("enum."+k.Mode+".positions_total", int64(k.CountTotal))
		st.Add("enum."+k.Mode+".positions_total."+k.Vector+"."+k.Art, int64(k.CountTotal))
	}
	x := &exec{c: c, b: b, st: st, k: &k}
	for i, raw := range sc.Ops {
		var op Op
		if err := json.Unmarshal(raw, &op); err != nil {
			core.Harnessf("attest: bad op %d: %v", i, err)
		}
		var v *core.Violation
		switch op.K {
		case "tp":
			v = x.timePolicy(&op)
		case "pck":
			v = x.pckOnly(&op)
		case "bundle":
			v = x.bundle(&op)
		case "sweep":
			v = x.sweep(&op)
		default:
			v = x.mutation(&op, c.apply(b, &op))
		}
		if v != nil {
			return v, true
		}
	}
	return nil, x.effective > 0
}

type exec struct {
	c         *corpus
	b         *baseline
	st        *core.Stats
	k         *Knobs
	effective int
}

// judge applies oracle parts (2) and (4) to one mutant.
func (x *exec) judge(op *Op, t *trial, desc string) *core.Violation {
	st := x.st
	cls := opClass(op)
	if t.Skip {
		st.Inc("probe.op." + cls + ".not_applicable")
		st.Event("%s n/a", desc)
		return nil
	}
	if len(t.Touched) == 0 {
		st.Inc("probe.op." + cls + ".identical")
		st.Event("%s identical", desc)
		return nil
	}
	x.effective++
	st.Inc("fault." + op.K)
	ts := time.Unix(x.b.V.TS, 0)
	combo := x.b.combo()
	if t.Genuine != nil {
		combo = t.Genuine
	}
	pol := docPolicy(x.b.V).resolve(combo.TCB, combo.QE, combo.Q.MrSeam, combo.Q.MrSigner)
	v := verifyTrial(t, pol.toPCS(), ts)
	outcome := "rejected"
	switch {
	case v.Panic != nil:
		outcome = "panic"
	case v.Accepted:
		outcome = "accepted_equiv"
	}
	st.Event("%s touched=%s -> %s %s", desc, fmtTouched(t), outcome, rejectClass(v.Err))
	if v.Panic != nil {
		site := core.PanicSite(v.Stack, "sgx/pcs")
		return viol("panic", "panic site="+site, fmt.Sprintf("vector %s, %s: panic in verifier: %v\n%s", x.b.V.Name, desc, v.Panic, v.Stack))
	}
	where := fmtTouched(t)
	if v.Accepted {
		switch {
		case t.Genuine != nil:
			fails := quoteFails(combo.Q, combo.TCB, combo.QE, combo.Certs, x.c.CertsCI[combo.Certs], ts, pol)
			if len(fails) > 0 {
				return viol("model-reject-accepted", "model-reject-accepted "+strings.Join(fails, ","),
					fmt.Sprintf("vector %s, %s: genuine artefacts %s/%s/%s/%s accepted at %s although: %v", x.b.V.Name, desc, combo.Q.Name, combo.TCB.Name, combo.QE.Name, combo.Certs, ts.UTC().Format(time.RFC3339), fails))
			}
			if ref := refs[combo.Q.Name]; ref == nil || !ref.Accepted || !sameResult(v.VQ, ref) {
				return viol("accepted-different", "accepted-different op="+cls, fmt.Sprintf("vector %s, %s: accepted with identity/report data other than those of quote %s", x.b.V.Name, desc, combo.Q.Name))
			}
			st.Inc("probe.genuine_combination_accepted")
		case !x.b.V.Accept:
			return viol("negative-accepted", "negative-accepted vec="+x.b.V.Name+" op="+cls,
				fmt.Sprintf("vector %s (documented as not verifying), %s (touched %s): ACCEPTED identity=%v report data=%x", x.b.V.Name, desc, where, v.VQ.Identity, v.VQ.ReportData))
		case !sameResult(v.VQ, refs[x.b.V.Name]):
			return viol("accepted-different", "accepted-different op="+cls+" touched="+where,
				fmt.Sprintf("vector %s, %s (touched %s): accepted with identity=%v report data=%x, original identity=%v report data=%x",
					x.b.V.Name, desc, where, v.VQ.Identity, v.VQ.ReportData, refs[x.b.V.Name].Identity, refs[x.b.V.Name].ReportData))
		case t.MustReject != "":
			return viol("unsigned-accepted", "unsigned-accepted op="+cls+" touched="+where,
				fmt.Sprintf("vector %s, %s (touched %s): accepted although %s", x.b.V.Name, desc, where, t.MustReject))
		}
	}
	if v.Accepted {
		st.Sample(1, map[string]string{"vector": x.b.V.Name, "mutant": desc, "touched": where, "verdict": "accepted with the identical identity and report data"})
	}
	st.Inc("probe.op." + cls + "." + outcome)
	for _, r := range t.Touched {
		st.Inc("probe.region." + r + "." + outcome)
	}
	if !v.Accepted {
		st.Inc("probe.reject." + rejectClass(v.Err))
	}
	return nil
}

func (x *exec) mutation(op *Op, t *trial) *core.Violation {
	desc := opDesc(op)
	if op.K == "flip" && !t.Skip {
		x.st.Add("enum."+x.k.Mode+x.covered(), 1)
		x.st.Distinct("flip."+x.b.V.Name+"."+op.Art, uint64(op.Pos))
	}
	return x.judge(op, t, desc)
}

// covered names the counter of enumerated positions: runs of the exact partition count towards
// "positions_covered" (to be compared with "positions_total"), seeded samples separately.
func (x *exec) covered() string {
	if x.k.Unit == "sample" || x.k.Unit == "" {
		return ".positions_sampled"
	}
	return ".positions_covered"
}

func opDesc(op *Op) string {
	var sb strings.Builder
	sb.WriteString(op.K)
	if op.Art != "" {
		sb.WriteString(" " + op.Art)
	}
	if op.Reg != "" {
		sb.WriteString(" reg=" + op.Reg)
	}
	if op.Sub != "" {
		sb.WriteString(" sub=" + op.Sub)
	}
	if op.Src != "" {
		sb.WriteString(" src=" + op.Src)
	}
	switch op.K {
	case "flip":
		fmt.Fprintf(&sb, " bit=%d (byte %d bit %d)", op.Pos, op.Pos/8, op.Pos%8)
	case "flip2":
		fmt.Fprintf(&sb, " bits=%d,%d", op.Pos, op.N)
	case "edit", "ins":
		fmt.Fprintf(&sb, " at=%d bytes=%s", op.Pos, op.Hex)
	case "del":
		fmt.Fprintf(&sb, " at=%d n=%d", op.Pos, op.N)
	case "trunc":
		fmt.Fprintf(&sb, " len=%d", op.N)
	case "ext":
		fmt.Fprintf(&sb, " bytes=%s", op.Hex)
	case "forge":
		fmt.Fprintf(&sb, " seed=%s pos=%d", op.Hex, op.Pos)
	}
	return sb.String()
}

// sweep substitutes every other value at one byte position.
func (x *exec) sweep(op *Op) *core.Violation {
	n := x.b.artLen(op.Art)
	if op.Pos < 0 || op.Pos >= n {
		x.st.Inc("probe.op.sweep.not_applicable")
		x.st.Event("sweep %s at=%d n/a", op.Art, op.Pos)
		return nil
	}
	x.st.Add("enum."+x.k.Mode+x.covered(), 1)
	x.st.Distinct("sweep."+x.b.V.Name+"."+op.Art, uint64(op.Pos))
	orig := x.b.trial().getArt(op.Art)[op.Pos]
	for d := 1; d < 256; d++ {
		e := Op{K: "edit", Art: op.Art, Pos: op.Pos, Hex: hex.EncodeToString([]byte{orig ^ byte(d)})}
		t := x.c.apply(x.b, &e)
		e.K = "sweep"
		if v := x.judge(&e, t, fmt.Sprintf("sweep %s at=%d value=%02x", op.Art, op.Pos, orig^byte(d))); v != nil {
			return v
		}
	}
	return nil
}

// policyProbes counts which policy branches a point exercises.
func (x *exec) policyProbes(p *rPolicy, tcb *tcbDoc, qe *qeDoc) {
	st := x.st
	switch {
	case p.Nil:
		st.Inc("probe.policy.nil")
	case p.Disabled:
		st.Inc("probe.policy.disabled")
	}
	switch {
	case !p.TDX:
		st.Inc("probe.policy.tdx_nil")
	case len(p.Mods) == 0:
		st.Inc("probe.policy.tdx_any_intel_module")
	default:
		st.Inc("probe.policy.tdx_module_list")
	}
	lo, hi := tcb.M.EvalNum, qe.M.EvalNum
	if lo > hi {
		lo, hi = hi, lo
	}
	switch m := int64(p.Min); {
	case m < lo:
		st.Inc("probe.policy.min_eval_below")
	case m == lo || m == hi:
		st.Inc("probe.policy.min_eval_at")
	case m < hi:
		st.Inc("probe.policy.min_eval_between")
	default:
		st.Inc("probe.policy.min_eval_above")
	}
	if len(p.WL) > 0 {
		if ok, _ := fmspcListed(p.WL, tcb.M.fmspc, tcb.M.FMSPC); ok {
			st.Inc("probe.policy.whitelist_contains")
		} else {
			st.Inc("probe.policy.whitelist_excludes")
		}
	}
	if len(p.BL) > 0 {
		if ok, _ := fmspcListed(p.BL, tcb.M.fmspc, tcb.M.FMSPC); ok {
			st.Inc("probe.policy.blacklist_contains")
		} else {
			st.Inc("probe.policy.blacklist_excludes")
		}
	}
	switch {
	case p.Period == 0:
		st.Inc("probe.policy.period_zero")
	case p.Period == 30:
		st.Inc("probe.policy.period_30")
	case p.Period < 30:
		st.Inc("probe.policy.period_short")
	default:
		st.Inc("probe.policy.period_long")
	}
}

func (x *exec) clockProbe(t *TimeSpec) {
	if t == nil {
		t = &TimeSpec{Base: "doc"}
	}
	side := "at"
	switch {
	case t.Base == "unix":
		side = "far"
	case t.Off < 0:
		side = "before"
	case t.Off > 0:
		side = "after"
	}
	x.st.Inc("probe.clock." + t.Base + "." + side)
}

// compare applies oracle part (3): the reference model's reasons against the code's verdict.
func (x *exec) compare(desc string, fails []string, accepted bool, err error, pv interface{}, stack string, ts time.Time, tcb *tcbDoc, qe *qeDoc) *core.Violation {
	st := x.st
	x.effective++
	sort.Strings(fails)
	out := "rejected"
	if accepted {
		out = "accepted"
	}
	if pv != nil {
		out = "panic"
	}
	st.Event("%s ts=%d.%09d model=%v -> %s %s", desc, ts.Unix(), ts.Nanosecond(), fails, out, rejectClass(err))
	if pv != nil {
		site := core.PanicSite(stack, "sgx/pcs")
		return viol("panic", "panic site="+site, fmt.Sprintf("vector %s, %s: panic in verifier: %v\n%s", x.b.V.Name, desc, pv, stack))
	}
	if len(fails) == 0 {
		st.Inc("probe.model.accept")
	} else {
		st.Inc("probe.model.reject")
		if len(fails) == 1 {
			f, _, _ := strings.Cut(fails[0], ":")
			st.Inc("probe.decisive." + f)
			if !accepted {
				st.Sample(1, map[string]string{"vector": x.b.V.Name, "point": desc, "ts": ts.UTC().Format(time.RFC3339Nano), "model": fails[0], "verdict": "rejected: " + fmt.Sprint(err)})
			}
		}
	}
	if accepted && len(fails) > 0 {
		kind := "model-reject-accepted"
		if len(fails) == 1 && fails[0] == "tcb-blacklist-case" {
			kind = "blacklist-case"
		}
		return viol(kind, kind+" "+strings.Join(fails, ","),
			fmt.Sprintf("vector %s, %s at %s (unix %d.%09d): ACCEPTED although the reference model requires rejection: %v", x.b.V.Name, desc, ts.UTC().Format(time.RFC3339Nano), ts.Unix(), ts.Nanosecond(), fails))
	}
	if !accepted && len(fails) == 0 {
		// Safe direction; not part of the property, but it would mean that the model and the
		// code read the rules differently, so it is counted and sampled.
		st.Inc("over_strict_rejections")
		st.Sample(4, map[string]interface{}{"over_strict": desc, "ts": ts.Unix(), "err": fmt.Sprint(err)})
	}
	if accepted {
		if ts.After(tcb.M.next) || ts.After(qe.M.next) {
			st.Inc("probe.accepted_past_nextUpdate")
		}
		st.Inc("probe.clock_policy_point.accepted")
	} else {
		st.Inc("probe.clock_policy_point.rejected")
		st.Inc("probe.reject." + rejectClass(err))
	}
	return nil
}

func specDesc(t *TimeSpec, p *PolSpec) string {
	return string(core.MustJSON(struct {
		T *TimeSpec `json:"t"`
		P *PolSpec  `json:"p"`
	}{t, p}))
}

// timePolicy verifies a genuine quote with genuine documents at a symbolic time under a
// symbolic policy and compares with the reference model.
func (x *exec) timePolicy(op *Op) *core.Violation {
	cb := x.b.combo()
	if op.B != nil {
		if d := x.c.TCBs[op.B.TCB]; d != nil {
			cb.TCB = d
		}
		if d := x.c.QEs[op.B.QE]; d != nil {
			cb.QE = d
		}
		if _, ok := x.c.Certs[op.B.Certs]; ok {
			cb.Certs = op.B.Certs
		}
	}
	pspec := op.Pol
	if pspec == nil {
		pspec = docPolicy(x.b.V)
	}
	pol := pspec.resolve(cb.TCB, cb.QE, cb.Q.MrSeam, cb.Q.MrSigner)
	ci := x.c.CertsCI[cb.Certs]
	ts, ok := resolveTime(op.T, x.b.V.TS, cb.Q, cb.TCB, cb.QE, ci, pol.Period)
	desc := fmt.Sprintf("tp %s/%s/%s %s", cb.TCB.Name, cb.QE.Name, cb.Certs, specDesc(op.T, pspec))
	if !ok || ts.IsZero() {
		x.st.Inc("probe.op.tp.not_applicable")
		x.st.Event("%s n/a", desc)
		return nil
	}
	x.st.Inc("fault.clock_policy_point")
	x.clockProbe(op.T)
	x.policyProbes(pol, cb.TCB, cb.QE)
	t := &trial{Quote: cb.Q.Raw, TCBBody: cb.TCB.Body, TCBSig: cb.TCB.Sig, QEBody: cb.QE.Body, QESig: cb.QE.Sig, Certs: x.c.Certs[cb.Certs]}
	v := verifyTrial(t, pol.toPCS(), ts)
	fails := quoteFails(cb.Q, cb.TCB, cb.QE, cb.Certs, ci, ts, pol)
	if cv := x.compare(desc, fails, v.Accepted, v.Err, v.Panic, v.Stack, ts, cb.TCB, cb.QE); cv != nil {
		return cv
	}
	if v.Accepted && !sameResult(v.VQ, refs[cb.Q.Name]) {
		return viol("accepted-different", "accepted-different op=tp", fmt.Sprintf("vector %s, %s: accepted with another identity/report data", x.b.V.Name, desc))
	}
	return nil
}

// pckOnly verifies only the PCK certificate chain of the quote at a symbolic time.
func (x *exec) pckOnly(op *Op) *core.Violation {
	q := x.b.Q
	desc := fmt.Sprintf("pck %s", specDesc(op.T, nil))
	ts, ok := resolveTime(op.T, x.b.V.TS, q, x.b.TCB, x.b.QE, x.b.CI, 30)
	if q.Chain == nil || !ok || ts.IsZero() {
		x.st.Inc("probe.op.pck.not_applicable")
		x.st.Event("%s n/a", desc)
		return nil
	}
	x.st.Inc("fault.clock_point_pck_chain")
	x.clockProbe(op.T)
	var info *pcs.PCKInfo
	var err error
	pv, stack := core.Guard(func() {
		var quote pcs.Quote
		if err = quote.UnmarshalBinary(q.Raw); err != nil {
			return
		}
		sig, isP256 := quote.Signature().(*pcs.QuoteSignatureECDSA_P256)
		if !isP256 {
			err = fmt.Errorf("harness: unexpected signature type")
			return
		}
		info, err = sig.VerifyPCK(ts)
	})
	fails := certFails("pck", q.Chain, ts)
	accepted := pv == nil && err == nil && info != nil
	if v := x.compare(desc, fails, accepted, err, pv, stack, ts, x.b.TCB, x.b.QE); v != nil {
		return v
	}
	if accepted && (!bytes.Equal(info.FMSPC, q.FMSPC) || info.TCBCompSVN != q.CompSVN || info.PCESVN != q.PCESVN) {
		return viol("pck-info", "pck-info", fmt.Sprintf("vector %s, %s: PCK information differs from the certificate's: %+v", x.b.V.Name, desc, info))
	}
	return nil
}

// bundlePlatform resolves the symbolic platform parameters of a collateral-level op.
func (c *corpus) bundlePlatform(bs *BundleSpec) (*platform, *tcbDoc, *qeDoc, *quoteDoc) {
	tcb, qe := c.TCBs[bs.TCB], c.QEs[bs.QE]
	from := c.Quotes[bs.From]
	_, okc := c.Certs[bs.Certs]
	if tcb == nil || qe == nil || from == nil || from.Chain == nil || !okc {
		core.Harnessf("attest: bundle op refers to unknown artefacts: %+v", *bs)
	}
	pf := from.platform()
	pf.TEE = bs.TEE
	pf.QERep = append([]byte(nil), pf.QERep...)
	if bs.TEE == "sgx" {
		pf.TdxSVN = nil
	} else if pf.TdxSVN == nil {
		pf.TdxSVN = new([16]byte)
	} else {
		s := *pf.TdxSVN
		pf.TdxSVN = &s
	}
	// SVNs.
	clamp := func(v, hi int64) int64 { return clampU(v, hi) }
	if bs.Level >= 0 && bs.Level < len(tcb.M.Levels) {
		l := tcb.M.Levels[bs.Level]
		for i := 0; i < 16; i++ {
			pf.CompSVN[i] = 0
			if i < len(l.TCB.SGX) {
				pf.CompSVN[i] = int32(clamp(l.TCB.SGX[i].SVN, 1<<30))
			}
			if pf.TdxSVN != nil && i < len(l.TCB.TDX) && i >= 2 {
				pf.TdxSVN[i] = byte(clamp(l.TCB.TDX[i].SVN, 255))
			}
		}
		pf.PCESVN = uint16(clamp(l.TCB.PCESVN, 65535))
	}
	switch {
	case bs.Delta == 0:
	case bs.Comp < 16:
		pf.CompSVN[bs.Comp] = int32(clamp(int64(pf.CompSVN[bs.Comp])+int64(bs.Delta), 1<<30))
	case bs.Comp == 16:
		pf.PCESVN = uint16(clamp(int64(pf.PCESVN)+int64(bs.Delta), 65535))
	case bs.Comp <= 32 && pf.TdxSVN != nil:
		i := bs.Comp - 17
		pf.TdxSVN[i] = byte(clamp(int64(pf.TdxSVN[i])+int64(bs.Delta), 255))
	}
	if pf.TdxSVN != nil {
		if bs.TdxMod >= 0 {
			pf.TdxSVN[1] = byte(bs.TdxMod)
		}
		if bs.TdxModSVN >= 0 {
			pf.TdxSVN[0] = byte(bs.TdxModSVN)
		}
	}
	// FMSPC.
	fm := append([]byte(nil), pf.FMSPC...)
	switch v := bs.FMSPC; {
	case v == "":
	case v == "tcb":
		fm = append([]byte(nil), tcb.M.fmspc...)
	case strings.HasPrefix(v, "byte"):
		fm = append([]byte(nil), tcb.M.fmspc...)
		fm[int(v[4]-'0')%6] ^= 0x10
	case v == "bit":
		fm = append([]byte(nil), tcb.M.fmspc...)
		fm[5] ^= 0x01
	case v == "short":
		fm = append([]byte(nil), tcb.M.fmspc[:5]...)
	case v == "long":
		fm = append(append([]byte(nil), tcb.M.fmspc...), 0)
	case v == "empty":
		fm = []byte{}
	}
	pf.FMSPC = fm
	// QE report.
	rep := pf.QERep
	switch bs.QEEdit {
	case "isvsvn":
		rep[258], rep[259] = byte(bs.QEVal), byte(bs.QEVal>>8)
	case "prodid":
		rep[256], rep[257] = byte(bs.QEVal), byte(bs.QEVal>>8)
	case "mrsigner":
		rep[128+bs.QEVal%32] ^= 1 << (bs.QEVal % 8)
	case "misc":
		rep[16+bs.QEVal%4] ^= 1 << (bs.QEVal % 8)
	case "attr":
		rep[48+bs.QEVal%16] ^= 1 << (bs.QEVal % 8)
	}

	return pf, tcb, qe, from
}

// bundle calls TCBBundle.Verify directly with genuine documents and harness-chosen platform
// parameters.
func (x *exec) bundle(op *Op) *core.Violation {
	bs := op.B
	if bs == nil || op.Pol == nil {
		core.Harnessf("attest: bundle op without parameters")
	}
	pf, tcb, qe, from := x.c.bundlePlatform(bs)
	certs := x.c.Certs[bs.Certs]
	rep := pf.QERep
	pol := op.Pol.resolve(tcb, qe, from.MrSeam, from.MrSigner)
	pol.Nil = false
	ci := x.c.CertsCI[bs.Certs]
	ts, ok := resolveTime(op.T, x.b.V.TS, from, tcb, qe, ci, pol.Period)
	desc := fmt.Sprintf("bundle %s %s", string(core.MustJSON(bs)), specDesc(op.T, op.Pol))
	if !ok || ts.IsZero() {
		x.st.Inc("probe.op.bundle.not_applicable")
		x.st.Event("%s n/a", desc)
		return nil
	}
	x.st.Inc("fault.collateral_point")
	x.clockProbe(op.T)
	x.policyProbes(pol, tcb, qe)
	if bs.FMSPC != "" && bs.FMSPC != "tcb" {
		x.st.Inc("probe.bundle.fmspc_variant." + strings.TrimRight(bs.FMSPC, "0123456789"))
	}
	if bs.QEEdit != "" {
		x.st.Inc("probe.bundle.qe_report_edit." + bs.QEEdit)
	}
	if bs.Level >= 0 {
		x.st.Inc("probe.bundle.tcb_level_targeted")
	}

	tee := pcs.TeeTypeSGX
	if bs.TEE == "tdx" {
		tee = pcs.TeeTypeTDX
	}
	var err error
	pv, stack := core.Guard(func() {
		var qeRep pcs.SgxReport
		if err = qeRep.UnmarshalBinary(rep); err != nil {
			return
		}
		bnd := makeBundle(tcb.Body, tcb.Sig, qe.Body, qe.Sig, certs)
		err = bnd.Verify(tee, ts, pol.toPCS(), pf.FMSPC, pf.CompSVN, pf.TdxSVN, pf.PCESVN, &qeRep)
	})
	fails := bundleFails(pf, tcb, qe, bs.Certs, ci, ts, pol)
	for _, f := range fails {
		if strings.HasPrefix(f, "tcb-level:") || strings.HasPrefix(f, "qe-level:") || strings.HasPrefix(f, "tdx-module-level:") {
			x.st.Inc("probe.bundle.status." + f)
		}
	}
	return x.compare(desc, fails, pv == nil && err == nil, err, pv, stack, ts, tcb, qe)
}
