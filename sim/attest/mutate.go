package attest

import (
	"bytes"
	"crypto"
	"crypto/ecdsa"
	"crypto/elliptic"
	"crypto/sha256"
	"crypto/x509"
	"crypto/x509/pkix"
	"encoding/asn1"
	"encoding/hex"
	"fmt"
	"math/big"
	"strings"
	"time"

	"verif/sim/core"
)

// Op is one fault / one (time, policy) point. Ops are independent of each other.
type Op struct {
	K   string `json:"k"`
	Art string `json:"a,omitempty"`   // quote | tcb | qe | certs
	Pos int    `json:"p,omitempty"`   // bit index (flip) or byte offset
	N   int    `json:"n,omitempty"`   // second bit (flip2), new length (trunc), count (del)
	Hex string `json:"x,omitempty"`   // bytes / key seed
	Sub string `json:"s,omitempty"`   // variant
	Src string `json:"src,omitempty"` // source artefact for splices / substitutions
	Reg string `json:"r,omitempty"`   // quote region / signature site

	T   *TimeSpec   `json:"t,omitempty"`
	Pol *PolSpec    `json:"pol,omitempty"`
	B   *BundleSpec `json:"b,omitempty"`
}

// BundleSpec parameterises a direct TCBBundle.Verify call (collateral-level sweep): genuine
// documents, harness-chosen platform parameters.
type BundleSpec struct {
	TEE   string `json:"tee"`
	TCB   string `json:"tcb"`
	QE    string `json:"qe"`
	Certs string `json:"certs"`
	From  string `json:"from"` // quote whose platform parameters are the starting point
	// FMSPC variant: "" (as the PCK says), "tcb" (as the TCB info says), "byte<i>" (one byte
	// differs), "short", "long", "empty".
	FMSPC string `json:"fmspc,omitempty"`
	// Level / Delta: start from the SVNs of TCB level #Level of the TCB info (-1: keep the
	// platform's own) and add Delta to component Comp (0..15 SGX, 16 PCESVN, 17..32 TDX).
	Level int `json:"level"`
	Comp  int `json:"comp,omitempty"`
	Delta int `json:"delta,omitempty"`
	// TdxMod sets TEE TCB SVN[1] (module version) and TdxModSVN sets SVN[0]; -1 keeps.
	TdxMod    int `json:"tdx_mod"`
	TdxModSVN int `json:"tdx_mod_svn"`
	// QE report edits: "" none, "isvsvn", "prodid", "mrsigner", "misc", "attr", "attr-masked".
	QEEdit string `json:"qe_edit,omitempty"`
	QEVal  int    `json:"qe_val,omitempty"`
}

// trial is a concrete input to the verifier plus what the harness knows about it.
type trial struct {
	Quote   []byte
	TCBBody []byte
	TCBSig  string
	QEBody  []byte
	QESig   string
	Certs   []byte

	// MustReject is non-empty when no acceptance at all is allowed, with the reason.
	MustReject string
	// Touched are the quote regions / artefact parts that differ from the original.
	Touched []string
	// Skip is set when the op does not apply (e.g. position beyond the artefact).
	Skip bool
	// Genuine is set when whole artefacts were replaced by other genuine ones (and nothing else
	// changed): the verdict is then decided by the reference model for that combination.
	Genuine *combo
}

// combo is a combination of genuine artefacts.
type combo struct {
	Q     *quoteDoc
	TCB   *tcbDoc
	QE    *qeDoc
	Certs string
}

func (b *baseline) combo() *combo {
	return &combo{Q: b.Q, TCB: b.TCB, QE: b.QE, Certs: b.V.Certs}
}

var p256N = elliptic.P256().Params().N

func unhex(s string) []byte {
	b, err := hex.DecodeString(s)
	if err != nil {
		core.Harnessf("attest: bad hex in op: %q", s)
	}
	return b
}

// baseline holds the genuine artefacts of a vector.
type baseline struct {
	V     *vector
	Q     *quoteDoc
	TCB   *tcbDoc
	QE    *qeDoc
	Certs []byte
	CI    []certInfo
}

func (c *corpus) baseline(name string) *baseline {
	v := c.Vectors[name]
	if v == nil {
		core.Harnessf("attest: unknown vector %q", name)
	}
	return &baseline{V: v, Q: c.Quotes[v.Quote], TCB: c.TCBs[v.TCB], QE: c.QEs[v.QE], Certs: c.Certs[v.Certs], CI: c.CertsCI[v.Certs]}
}

func (b *baseline) trial() *trial {
	return &trial{
		Quote:   append([]byte(nil), b.Q.Raw...),
		TCBBody: append([]byte(nil), b.TCB.Body...), TCBSig: b.TCB.Sig,
		QEBody: append([]byte(nil), b.QE.Body...), QESig: b.QE.Sig,
		Certs: append([]byte(nil), b.Certs...),
	}
}

// artefact access: "tcb" and "qe" are body || signature-hex.
func (b *baseline) artLen(art string) int {
	switch art {
	case "quote":
		return len(b.Q.Raw)
	case "tcb":
		return len(b.TCB.Body) + len(b.TCB.Sig)
	case "qe":
		return len(b.QE.Body) + len(b.QE.Sig)
	case "certs":
		return len(b.Certs)
	}
	core.Harnessf("attest: unknown artefact %q", art)
	return 0
}

func (t *trial) getArt(art string) []byte {
	switch art {
	case "quote":
		return t.Quote
	case "tcb":
		return append(append([]byte(nil), t.TCBBody...), t.TCBSig...)
	case "qe":
		return append(append([]byte(nil), t.QEBody...), t.QESig...)
	case "certs":
		return t.Certs
	}
	core.Harnessf("attest: unknown artefact %q", art)
	return nil
}

// setArt stores a mutated artefact; for the signed JSON documents the split between body and
// signature stays where it was in the original (bodyLen), except when the mutation changed the
// length, in which case the length change is attributed to the part where it happened (at).
func (t *trial) setArt(art string, data []byte, bodyLen int) {
	switch art {
	case "quote":
		t.Quote = data
	case "certs":
		t.Certs = data
	case "tcb":
		if bodyLen > len(data) {
			bodyLen = len(data)
		}
		t.TCBBody, t.TCBSig = data[:bodyLen], string(data[bodyLen:])
	case "qe":
		if bodyLen > len(data) {
			bodyLen = len(data)
		}
		t.QEBody, t.QESig = data[:bodyLen], string(data[bodyLen:])
	}
}

func (b *baseline) bodyLen(art string) int {
	switch art {
	case "tcb":
		return len(b.TCB.Body)
	case "qe":
		return len(b.QE.Body)
	}
	return 0
}

// classify fills Touched and MustReject by comparing the trial with the baseline; it encodes
// which bytes are covered by signatures or hash bindings.
func (b *baseline) classify(c *corpus, t *trial) {
	touched := map[string]bool{}
	var must []string
	if t.Genuine != nil {
		t.Touched = []string{"genuine-combination"}
		return
	}
	// Quote.
	if !bytes.Equal(t.Quote, b.Q.Raw) {
		if len(t.Quote) == len(b.Q.Raw) {
			cdTouched := false
			for i := range t.Quote {
				if t.Quote[i] != b.Q.Raw[i] {
					r := b.Q.L.regionAt(i)
					if !touched["quote."+r] {
						touched["quote."+r] = true
						if signedRegion[r] {
							must = append(must, "signed quote region "+r+" modified")
						}
						if r == rCD {
							cdTouched = true
						}
					}
				}
			}
			if cdTouched && b.Q.Chain != nil {
				cd := b.Q.L.Regions[rCD]
				ci, ok := parsePEMChain(t.Quote[cd.Off:cd.end()])
				if !ok || !c.chainEquivalent(ci, b.Q.Chain) {
					must = append(must, "PCK chain certificates modified")
				}
			}
			if cdTouched && b.Q.Chain == nil {
				must = append(must, "no PCK chain")
			}
		} else {
			touched["quote.length"] = true
		}
	}
	if !bytes.Equal(t.TCBBody, b.TCB.Body) {
		touched["tcb.body"] = true
		must = append(must, "TCB info body modified")
	}
	if t.TCBSig != b.TCB.Sig {
		touched["tcb.sig"] = true
	}
	if !bytes.Equal(t.QEBody, b.QE.Body) {
		touched["qe.body"] = true
		must = append(must, "QE identity body modified")
	}
	if t.QESig != b.QE.Sig {
		touched["qe.sig"] = true
	}
	if !bytes.Equal(t.Certs, b.Certs) {
		touched["certs"] = true
		ci, ok := parsePEMChain(t.Certs)
		if !ok || !c.chainEquivalent(ci, b.CI) {
			must = append(must, "TCB signing chain certificates modified")
		}
	}
	for _, n := range regionOrder {
		if touched["quote."+n] {
			t.Touched = append(t.Touched, "quote."+n)
		}
	}
	for _, n := range []string{"quote.length", "tcb.body", "tcb.sig", "qe.body", "qe.sig", "certs"} {
		if touched[n] {
			t.Touched = append(t.Touched, n)
		}
	}
	if t.MustReject == "" && len(must) > 0 {
		t.MustReject = strings.Join(must, "; ")
	}
}

// ---- signature helpers ----

func subRS(sig []byte, how string, other []byte) []byte {
	out := append([]byte(nil), sig...)
	r := new(big.Int).SetBytes(sig[:32])
	s := new(big.Int).SetBytes(sig[32:])
	put := func(dst []byte, v *big.Int) {
		for i := range dst {
			dst[i] = 0
		}
		b := v.Bytes()
		if len(b) > 32 {
			b = b[len(b)-32:]
		}
		copy(dst[32-len(b):], b)
	}
	switch how {
	case "r0":
		put(out[:32], big.NewInt(0))
	case "s0":
		put(out[32:], big.NewInt(0))
	case "rn":
		put(out[:32], p256N)
	case "sn":
		put(out[32:], p256N)
	case "neg": // (r, n-s): the classic ECDSA malleability; still a valid signature
		put(out[32:], new(big.Int).Sub(p256N, s))
	case "rneg":
		put(out[:32], new(big.Int).Sub(p256N, r))
	case "splusn": // s+n does not fit in 32 bytes for almost all s; then the low 32 bytes are used
		put(out[32:], new(big.Int).Add(s, p256N))
	case "swap":
		copy(out[:32], sig[32:])
		copy(out[32:], sig[:32])
	case "ff":
		for i := range out {
			out[i] = 0xff
		}
	case "zero":
		for i := range out {
			out[i] = 0
		}
	case "other":
		copy(out, other)
	case "r-other":
		copy(out[:32], other[:32])
	case "s-other":
		copy(out[32:], other[32:])
	default:
		core.Harnessf("attest: unknown signature substitution %q", how)
	}
	return out
}

type certOuter struct {
	TBS asn1.RawValue
	Alg asn1.RawValue
	Sig asn1.BitString
}

type ecdsaSigValue struct{ R, S *big.Int }

// certSubSig re-encodes a certificate with a substituted signature value.
func certSubSig(der []byte, how string, other []byte) ([]byte, bool) {
	var co certOuter
	if rest, err := asn1.Unmarshal(der, &co); err != nil || len(rest) != 0 {
		return nil, false
	}
	var sv ecdsaSigValue
	if _, err := asn1.Unmarshal(co.Sig.Bytes, &sv); err != nil {
		return nil, false
	}
	raw := make([]byte, 64)
	sv.R.FillBytes(raw[:32])
	sv.S.FillBytes(raw[32:])
	if other == nil {
		other = raw
	}
	n := subRS(raw, how, other)
	nb, err := asn1.Marshal(ecdsaSigValue{new(big.Int).SetBytes(n[:32]), new(big.Int).SetBytes(n[32:])})
	if err != nil {
		return nil, false
	}
	co.Sig = asn1.BitString{Bytes: nb, BitLength: len(nb) * 8}
	out, err := asn1.Marshal(co)
	if err != nil {
		return nil, false
	}
	return out, true
}

func certRawSig(der []byte) []byte {
	var co certOuter
	if _, err := asn1.Unmarshal(der, &co); err != nil {
		return nil
	}
	var sv ecdsaSigValue
	if _, err := asn1.Unmarshal(co.Sig.Bytes, &sv); err != nil {
		return nil
	}
	raw := make([]byte, 64)
	sv.R.FillBytes(raw[:32])
	sv.S.FillBytes(raw[32:])
	return raw
}

// ---- harness keys ----

func harnessKey(seed, label string) *ecdsa.PrivateKey {
	h := sha256.Sum256([]byte("verif-c18-key/" + seed + "/" + label))
	d := new(big.Int).SetBytes(h[:])
	d.Mod(d, new(big.Int).Sub(p256N, big.NewInt(1)))
	d.Add(d, big.NewInt(1))
	var raw [32]byte
	d.FillBytes(raw[:])
	k, err := ecdsa.ParseRawPrivateKey(elliptic.P256(), raw[:])
	if err != nil {
		core.Harnessf("attest: cannot build harness key: %v", err)
	}
	return k
}

func rawPub(k *ecdsa.PrivateKey) []byte {
	b, err := k.PublicKey.Bytes()
	if err != nil || len(b) != 65 {
		core.Harnessf("attest: cannot encode harness public key: %v", err)
	}
	return b[1:]
}

func signRaw(k *ecdsa.PrivateKey, msg []byte) []byte {
	h := sha256.Sum256(msg)
	der, err := k.Sign(nil, h[:], crypto.SHA256) // nil random source: deterministic (RFC 6979)
	if err != nil {
		core.Harnessf("attest: harness signing failed: %v", err)
	}
	var sv ecdsaSigValue
	if _, err := asn1.Unmarshal(der, &sv); err != nil {
		core.Harnessf("attest: harness signature does not parse: %v", err)
	}
	raw := make([]byte, 64)
	sv.R.FillBytes(raw[:32])
	sv.S.FillBytes(raw[32:])
	return raw
}

// makeCert creates a certificate resembling `like` (subject, validity, extensions) for pub,
// signed by signer; the issuer name is taken from issuerLike.
func makeCert(like, issuerLike *x509.Certificate, pub *ecdsa.PublicKey, signer *ecdsa.PrivateKey, isCA bool) []byte {
	tmpl := &x509.Certificate{
		SerialNumber:          new(big.Int).Set(like.SerialNumber),
		Subject:               like.Subject,
		NotBefore:             like.NotBefore,
		NotAfter:              like.NotAfter,
		KeyUsage:              like.KeyUsage,
		BasicConstraintsValid: true,
		IsCA:                  isCA,
		SignatureAlgorithm:    x509.ECDSAWithSHA256,
	}
	for _, e := range like.Extensions {
		if e.Id.Equal(asn1.ObjectIdentifier{1, 2, 840, 113741, 1, 13, 1}) {
			tmpl.ExtraExtensions = append(tmpl.ExtraExtensions, pkix.Extension{Id: e.Id, Critical: e.Critical, Value: e.Value})
		}
	}
	parent := &x509.Certificate{Subject: issuerLike.Subject, SubjectKeyId: issuerLike.SubjectKeyId}
	der, err := x509.CreateCertificate(zeroReader{}, tmpl, parent, pub, signer)
	if err != nil {
		core.Harnessf("attest: cannot create harness certificate: %v", err)
	}
	return der
}

type zeroReader struct{}

func (zeroReader) Read(p []byte) (int, error) {
	for i := range p {
		p[i] = 0
	}
	return len(p), nil
}

func mustParseCert(der []byte) *x509.Certificate {
	c, err := x509.ParseCertificate(der)
	if err != nil {
		core.Harnessf("attest: genuine certificate does not parse: %v", err)
	}
	return c
}

// replaceAll replaces in JSON bytes keeping everything else.
func jsonTweak(body []byte, how string, ts time.Time) []byte {
	switch how {
	case "status":
		out := bytes.ReplaceAll(body, []byte(`"OutOfDate"`), []byte(`"UpToDate"`))
		out = bytes.ReplaceAll(out, []byte(`"ConfigurationAndSWHardeningNeeded"`), []byte(`"UpToDate"`))
		if bytes.Equal(out, body) {
			out = bytes.Replace(body, []byte(`"UpToDate"`), []byte(`"UpToDate" `), 1)
		}
		return out
	case "evalnum":
		return bytes.Replace(body, []byte(`"tcbEvaluationDataNumber":`), []byte(`"tcbEvaluationDataNumber":10`), 1)
	case "issue":
		i := bytes.Index(body, []byte(`"issueDate":"`))
		if i < 0 {
			return append(append([]byte(nil), body...), ' ')
		}
		i += len(`"issueDate":"`)
		j := i + bytes.IndexByte(body[i:], '"')
		n := ts.UTC().Format("2006-01-02T15:04:05Z")
		return append(append(append([]byte(nil), body[:i]...), n...), body[j:]...)
	default: // "space": a harmless-looking change
		return append(append([]byte(nil), body...), ' ')
	}
}

// ---- op application ----

// apply builds the trial of a mutation op on a vector's genuine artefacts.
func (c *corpus) apply(b *baseline, op *Op) *trial {
	t := b.trial()
	inPlace := func(f func(data []byte) bool) {
		data := append([]byte(nil), t.getArt(op.Art)...)
		if !f(data) {
			t.Skip = true
			return
		}
		t.setArt(op.Art, data, b.bodyLen(op.Art))
	}
	switch op.K {
	case "flip":
		inPlace(func(d []byte) bool {
			if op.Pos < 0 || op.Pos >= len(d)*8 {
				return false
			}
			d[op.Pos/8] ^= 1 << (op.Pos % 8)
			return true
		})
	case "flip2":
		inPlace(func(d []byte) bool {
			if op.Pos < 0 || op.Pos >= len(d)*8 || op.N < 0 || op.N >= len(d)*8 || op.N == op.Pos {
				return false
			}
			d[op.Pos/8] ^= 1 << (op.Pos % 8)
			d[op.N/8] ^= 1 << (op.N % 8)
			return true
		})
	case "edit":
		inPlace(func(d []byte) bool {
			x := unhex(op.Hex)
			if op.Pos < 0 || op.Pos >= len(d) || len(x) == 0 {
				return false
			}
			copy(d[op.Pos:], x)
			return true
		})
	case "trunc":
		data := t.getArt(op.Art)
		if op.N < 0 || op.N >= len(data) {
			t.Skip = true
			break
		}
		t.setArt(op.Art, append([]byte(nil), data[:op.N]...), b.bodyLen(op.Art))
	case "ins", "del", "ext":
		data := append([]byte(nil), t.getArt(op.Art)...)
		x := unhex(op.Hex)
		bl := b.bodyLen(op.Art)
		switch {
		case op.K == "ext" && op.Sub == "body" && (op.Art == "tcb" || op.Art == "qe"):
			data = append(append(append([]byte(nil), data[:bl]...), x...), data[bl:]...)
			bl += len(x)
		case op.K == "ext" && op.Sub == "tail" && op.Art == "quote":
			p := b.Q.P.clone()
			p.Tail = append(p.Tail, x...)
			data = p.build()
		case op.K == "ext" && op.Sub == "cd" && op.Art == "quote":
			p := b.Q.P.clone()
			p.CD = append(p.CD, x...)
			data = p.build()
		case op.K == "ext" && op.Sub == "auth" && op.Art == "quote":
			p := b.Q.P.clone()
			p.Auth = append(p.Auth, x...)
			data = p.build()
			t.MustReject = "QE authentication data extended"
		case op.K == "ext":
			data = append(data, x...)
		case op.K == "ins":
			if op.Pos < 0 || op.Pos > len(data) || len(x) == 0 {
				t.Skip = true
				break
			}
			data = append(append(append([]byte(nil), data[:op.Pos]...), x...), data[op.Pos:]...)
			if op.Pos < bl {
				bl += len(x)
			}
		case op.K == "del":
			if op.Pos < 0 || op.N <= 0 || op.Pos+op.N > len(data) {
				t.Skip = true
				break
			}
			data = append(append([]byte(nil), data[:op.Pos]...), data[op.Pos+op.N:]...)
			if op.Pos < bl {
				d := op.N
				if op.Pos+d > bl {
					d = bl - op.Pos
				}
				bl -= d
			}
		}
		if !t.Skip {
			t.setArt(op.Art, data, bl)
		}
	case "splice":
		c.applySplice(b, op, t)
	case "sigsub":
		c.applySigSub(b, op, t)
	case "chain":
		c.applyChain(b, op, t)
	case "forge":
		c.applyForge(b, op, t)
	default:
		core.Harnessf("attest: unknown mutation op kind %q", op.K)
	}
	if !t.Skip {
		b.classify(c, t)
	}
	return t
}

// applySplice replaces a whole artefact, or one region of the quote, by the corresponding part
// of another genuine artefact.
func (c *corpus) applySplice(b *baseline, op *Op, t *trial) {
	switch op.Art {
	case "tcb":
		d := c.TCBs[op.Src]
		if d == nil || d == b.TCB {
			t.Skip = true
			return
		}
		switch op.Sub {
		case "sig": // signature of another document over this body
			t.TCBSig = d.Sig
		case "body":
			t.TCBBody = append([]byte(nil), d.Body...)
		default:
			t.TCBBody, t.TCBSig = append([]byte(nil), d.Body...), d.Sig
			t.Genuine = b.combo()
			t.Genuine.TCB = d
		}
	case "qe":
		d := c.QEs[op.Src]
		if d == nil || d == b.QE {
			t.Skip = true
			return
		}
		switch op.Sub {
		case "sig":
			t.QESig = d.Sig
		case "body":
			t.QEBody = append([]byte(nil), d.Body...)
		default:
			t.QEBody, t.QESig = append([]byte(nil), d.Body...), d.Sig
			t.Genuine = b.combo()
			t.Genuine.QE = d
		}
	case "cross": // TCB info and QE identity swapped into each other's slot
		t.TCBBody, t.TCBSig, t.QEBody, t.QESig = t.QEBody, t.QESig, t.TCBBody, t.TCBSig
	case "certs":
		d := c.Certs[op.Src]
		if d == nil || bytes.Equal(d, b.Certs) {
			t.Skip = true
			return
		}
		t.Certs = append([]byte(nil), d...)
		t.Genuine = b.combo()
		t.Genuine.Certs = op.Src
	case "quote":
		src := c.Quotes[op.Src]
		if src == nil || src == b.Q {
			t.Skip = true
			return
		}
		if op.Reg == "" {
			// Another genuine quote with this vector's collateral, time and policy. Whether that
			// may be accepted is decided by the reference model (see engine).
			t.Quote = append([]byte(nil), src.Raw...)
			t.Genuine = b.combo()
			t.Genuine.Q = src
			return
		}
		p := b.Q.P.clone()
		s := src.P
		switch op.Reg {
		case rHeader:
			p.Header = s.Header
		case rReport:
			p.Body = s.Body
			if len(s.Body) != len(b.Q.P.Body) {
				t.Skip = true
				return
			}
		case rSig:
			p.Sig = s.Sig
		case rAttKey:
			p.AttKey = s.AttKey
		case "sig+attkey":
			p.Sig, p.AttKey = s.Sig, s.AttKey
		case rQERep:
			p.QERep = s.QERep
		case rQESig:
			p.QESig = s.QESig
		case "qereport+qesig":
			p.QERep, p.QESig = s.QERep, s.QESig
		case rAuth:
			p.Auth = s.Auth
		case rCD:
			p.CD, p.CDType = s.CD, s.CDType
		case "qe-all": // everything below the attestation key
			p.QERep, p.QESig, p.Auth, p.CD, p.CDType = s.QERep, s.QESig, s.Auth, s.CD, s.CDType
		case "sigdata": // whole signature data of the other quote under this header+report
			p.Sig, p.AttKey, p.QERep, p.QESig, p.Auth, p.CD, p.CDType, p.Tail = s.Sig, s.AttKey, s.QERep, s.QESig, s.Auth, s.CD, s.CDType, s.Tail
		default:
			core.Harnessf("attest: unknown splice region %q", op.Reg)
		}
		t.Quote = p.build()
		if !bytes.Equal(t.Quote, b.Q.Raw) && len(t.Quote) != len(b.Q.Raw) {
			// Length changed (other PCK chain): the classifier cannot attribute regions.
			switch op.Reg {
			case rCD, "qe-all", "sigdata":
				if !c.chainEquivalent(src.Chain, b.Q.Chain) {
					t.MustReject = "PCK chain of another platform"
				}
			}
		}
	default:
		core.Harnessf("attest: unknown splice artefact %q", op.Art)
	}
}

func (c *corpus) applySigSub(b *baseline, op *Op, t *trial) {
	other := func(def []byte) []byte {
		switch op.Src {
		case "quote.sig":
			return b.Q.P.Sig
		case "quote.qesig":
			return b.Q.P.QESig
		case "tcb.sig":
			return unhex(b.TCB.Sig)
		case "qe.sig":
			return unhex(b.QE.Sig)
		}
		return def
	}
	switch op.Reg {
	case "quote.sig", "quote.qesig":
		p := b.Q.P.clone()
		if op.Reg == "quote.sig" {
			p.Sig = subRS(p.Sig, op.Sub, other(p.QESig))
		} else {
			p.QESig = subRS(p.QESig, op.Sub, other(p.Sig))
		}
		t.Quote = p.build()
	case "tcb.sig":
		t.TCBSig = hex.EncodeToString(subRS(unhex(b.TCB.Sig), op.Sub, other(unhex(b.QE.Sig))))
	case "qe.sig":
		t.QESig = hex.EncodeToString(subRS(unhex(b.QE.Sig), op.Sub, other(unhex(b.TCB.Sig))))
	case "pck0", "pck1", "pck2":
		if b.Q.Chain == nil {
			t.Skip = true
			return
		}
		i := int(op.Reg[3] - '0')
		ders := [][]byte{b.Q.Chain[0].DER, b.Q.Chain[1].DER, b.Q.Chain[2].DER}
		nd, ok := certSubSig(ders[i], op.Sub, certRawSig(ders[(i+1)%3]))
		if !ok {
			core.Harnessf("attest: cannot re-encode PCK certificate %d", i)
		}
		ders[i] = nd
		p := b.Q.P.clone()
		p.CD = pemEncode(ders...)
		t.Quote = p.build()
		// The TBS list is unchanged: acceptance with the same identity is harmless (a valid
		// alternative signature encoding); the classifier cannot attribute regions because the
		// length may differ, so nothing is forced here.
	case "tcbc0", "tcbc1":
		i := int(op.Reg[4] - '0')
		ders := [][]byte{b.CI[0].DER, b.CI[1].DER}
		nd, ok := certSubSig(ders[i], op.Sub, certRawSig(ders[1-i]))
		if !ok {
			core.Harnessf("attest: cannot re-encode TCB chain certificate %d", i)
		}
		ders[i] = nd
		t.Certs = pemEncode(ders...)
	default:
		core.Harnessf("attest: unknown signature site %q", op.Reg)
	}
}

// applyChain performs certificate-chain surgery on the PCK chain inside the quote (Art=quote)
// or on the TCB signing chain (Art=certs).
func (c *corpus) applyChain(b *baseline, op *Op, t *trial) {
	var ders [][]byte
	if op.Art == "quote" {
		if b.Q.Chain == nil {
			t.Skip = true
			return
		}
		for _, ci := range b.Q.Chain {
			ders = append(ders, ci.DER)
		}
	} else {
		for _, ci := range b.CI {
			ders = append(ders, ci.DER)
		}
	}
	orig := append([][]byte(nil), ders...)
	n := len(ders)
	foreign := func(name string) []byte {
		switch name {
		case "tcbsign":
			return c.CertsCI["certs"][0].DER
		case "platformca":
			return c.CertsCI["certs_bad"][0].DER
		case "root":
			return c.CertsCI["certs"][1].DER
		default:
			if q := c.Quotes[name]; q != nil && q.Chain != nil {
				return q.Chain[0].DER
			}
		}
		return nil
	}
	raw := []byte(nil)
	switch {
	case op.Sub == "swap01":
		ders[0], ders[1] = ders[1], ders[0]
	case op.Sub == "swap12" && n > 2:
		ders[1], ders[2] = ders[2], ders[1]
	case op.Sub == "swap02" && n > 2:
		ders[0], ders[2] = ders[2], ders[0]
	case op.Sub == "rot":
		ders = append(ders[1:], ders[0])
	case op.Sub == "drop0":
		ders = ders[1:]
	case op.Sub == "drop1":
		ders = append(append([][]byte(nil), ders[:1]...), ders[2:]...)
	case op.Sub == "droplast":
		ders = ders[:n-1]
	case op.Sub == "dup0":
		ders = append([][]byte{ders[0]}, ders...)
	case op.Sub == "duplast":
		ders = append(ders, ders[n-1])
	case op.Sub == "empty":
		ders = nil
	case strings.HasPrefix(op.Sub, "leaf="):
		f := foreign(op.Sub[5:])
		if f == nil || bytes.Equal(f, ders[0]) {
			t.Skip = true
			return
		}
		ders[0] = f
	case strings.HasPrefix(op.Sub, "inter=") && n > 2:
		f := foreign(op.Sub[6:])
		if f == nil || bytes.Equal(f, ders[1]) {
			t.Skip = true
			return
		}
		ders[1] = f
	case strings.HasPrefix(op.Sub, "extra="):
		f := foreign(op.Sub[6:])
		if f == nil {
			t.Skip = true
			return
		}
		ders = append(ders, f)
	case op.Sub == "nopem": // DER instead of PEM
		raw = bytes.Join(ders, nil)
	case op.Sub == "badtype":
		raw = bytes.ReplaceAll(pemEncode(ders...), []byte("CERTIFICATE"), []byte("CERTIFICAT3"))
	case op.Sub == "crlf":
		raw = bytes.ReplaceAll(pemEncode(ders...), []byte("\n"), []byte("\r\n"))
	case op.Sub == "junk-between":
		raw = append(append(pemEncode(ders[0]), []byte("junk between blocks\n")...), pemEncode(ders[1:]...)...)
	case op.Sub == "reencode": // same certificates, harness PEM encoding
	default:
		t.Skip = true
		return
	}
	if raw == nil {
		raw = pemEncode(ders...)
	}
	// Independent expectation: the chain must consist of the genuine certificates (in any
	// order: a verifier tolerating reordering would be harmless), a re-issued leaf for the same
	// key being equivalent.
	var origCI []certInfo
	for _, d := range orig {
		x := mustParseCert(d)
		origCI = append(origCI, certInfo{DER: x.Raw, TBS: x.RawTBSCertificate, SPKI: x.RawSubjectPublicKeyInfo})
	}
	ci, ok := parsePEMChain(raw)
	if !ok || !(sameTBSSet(tbsList(ci), tbsList(origCI)) || c.chainEquivalent(ci, origCI)) {
		t.MustReject = "certificate chain does not consist of the genuine certificates (" + op.Sub + ")"
	}
	if op.Art == "quote" {
		p := b.Q.P.clone()
		p.CD = raw
		t.Quote = p.build()
	} else {
		t.Certs = raw
	}
}

// applyForge re-signs modified content with harness keys at increasing depth of the chain.
func (c *corpus) applyForge(b *baseline, op *Op, t *trial) {
	seed := op.Hex
	ts := time.Unix(b.V.TS, 0)
	switch {
	case strings.HasPrefix(op.Sub, "att"):
		if b.Q.Chain == nil {
			t.Skip = true
			return
		}
		p := b.Q.P.clone()
		// Change what the verifier reports: report data (Reg "rd") or the measured identity.
		off := len(p.Body) - 64 + op.Pos%64
		if op.Reg == "id" {
			if b.Q.TEE == "tdx" {
				off = 136 + op.Pos%48 // MRTD
			} else {
				off = 64 + op.Pos%32 // MRENCLAVE
			}
		}
		p.Body[off] ^= 0xa5
		ak := harnessKey(seed, "att")
		p.AttKey = rawPub(ak)
		p.Sig = signRaw(ak, append(append([]byte(nil), p.Header...), p.Body...))
		t.MustReject = "quote re-signed with a harness attestation key (" + op.Sub + ")"
		if op.Sub == "att" {
			t.Quote = p.build()
			return
		}
		// Make the QE report data commit to the harness key.
		h := sha256.New()
		h.Write(p.AttKey)
		h.Write(p.Auth)
		copy(p.QERep[320:352], h.Sum(nil))
		for i := 352; i < 384; i++ {
			p.QERep[i] = 0
		}
		if op.Sub == "att+qerd" {
			t.Quote = p.build()
			return
		}
		// Re-sign the QE report with a harness "PCK" key and supply a certificate for it.
		pk := harnessKey(seed, "pck")
		p.QESig = signRaw(pk, p.QERep)
		leaf, inter, root := mustParseCert(b.Q.Chain[0].DER), mustParseCert(b.Q.Chain[1].DER), mustParseCert(b.Q.Chain[2].DER)
		switch op.Sub {
		case "att+qe+pck/ownchain":
			rk, ik := harnessKey(seed, "root"), harnessKey(seed, "inter")
			rootDER := makeCert(root, root, &rk.PublicKey, rk, true)
			interDER := makeCert(inter, root, &ik.PublicKey, rk, true)
			leafDER := makeCert(leaf, inter, &pk.PublicKey, ik, false)
			p.CD = pemEncode(leafDER, interDER, rootDER)
		case "att+qe+pck/intelchain":
			// Leaf claims the genuine Platform CA as issuer but is signed by a harness key.
			ik := harnessKey(seed, "inter")
			leafDER := makeCert(leaf, inter, &pk.PublicKey, ik, false)
			p.CD = pemEncode(leafDER, b.Q.Chain[1].DER, b.Q.Chain[2].DER)
		case "att+qe+pck/selfsigned":
			leafDER := makeCert(leaf, leaf, &pk.PublicKey, pk, false)
			p.CD = pemEncode(leafDER, b.Q.Chain[1].DER, b.Q.Chain[2].DER)
		case "att+qe+pck/ownroot-intelinter":
			// Harness intermediate signed by harness root, genuine root listed last.
			rk, ik := harnessKey(seed, "root"), harnessKey(seed, "inter")
			interDER := makeCert(inter, root, &ik.PublicKey, rk, true)
			leafDER := makeCert(leaf, inter, &pk.PublicKey, ik, false)
			p.CD = pemEncode(leafDER, interDER, b.Q.Chain[2].DER)
		default:
			core.Harnessf("attest: unknown forge variant %q", op.Sub)
		}
		t.Quote = p.build()
	case strings.HasPrefix(op.Sub, "tcb"), strings.HasPrefix(op.Sub, "qe"):
		// Forged collateral: modified documents signed by a harness "TCB signing" key.
		tk := harnessKey(seed, "tcbsign")
		which, how, _ := strings.Cut(op.Sub, "/")
		tweak := op.Reg
		if which == "tcb" || which == "tcb+qe" {
			t.TCBBody = jsonTweak(b.TCB.Body, tweak, ts)
		}
		if which == "qe" || which == "tcb+qe" {
			t.QEBody = jsonTweak(b.QE.Body, tweak, ts)
		}
		// Both documents are (re-)signed with the harness key so that the only remaining
		// defence is the certificate chain.
		t.TCBSig = hex.EncodeToString(signRaw(tk, t.TCBBody))
		t.QESig = hex.EncodeToString(signRaw(tk, t.QEBody))
		sign, root := mustParseCert(b.CI[0].DER), mustParseCert(b.CI[1].DER)
		switch how {
		case "ownchain":
			rk := harnessKey(seed, "root")
			rootDER := makeCert(root, root, &rk.PublicKey, rk, true)
			t.Certs = pemEncode(makeCert(sign, root, &tk.PublicKey, rk, false), rootDER)
		case "intelroot":
			rk := harnessKey(seed, "root")
			t.Certs = pemEncode(makeCert(sign, root, &tk.PublicKey, rk, false), b.CI[1].DER)
		case "selfsigned":
			t.Certs = pemEncode(makeCert(sign, sign, &tk.PublicKey, tk, false), b.CI[1].DER)
		case "keepcerts":
			// Genuine chain: the harness signatures simply do not verify.
		default:
			core.Harnessf("attest: unknown forge variant %q", op.Sub)
		}
		t.MustReject = "collateral signed by a harness key (" + op.Sub + ")"
	default:
		core.Harnessf("attest: unknown forge variant %q", op.Sub)
	}
}

func fmtTouched(t *trial) string {
	if len(t.Touched) == 0 {
		return "-"
	}
	return strings.Join(t.Touched, ",")
}

func short(b []byte) string {
	if len(b) > 12 {
		return fmt.Sprintf("%x..(%d)", b[:12], len(b))
	}
	return fmt.Sprintf("%x", b)
}
