package attest

import (
	"bytes"
	"encoding/hex"
	"fmt"
	"strings"
	"time"

	"github.com/oasisprotocol/oasis-core/go/common/sgx/pcs"
)

// This file is the harness' independent reference model of *when a genuine quote with genuine
// collateral must not be accepted*: verifier clock versus the validity windows, the policy
// settings, platform/collateral correspondence and the Intel TCB-level rules.  It works only on
// what the harness parsed itself (corpus.go) and never calls the code under test.
//
// Window semantics (policy.go: "TCBValidityPeriod is the validity (in days) of the TCB
// collateral"; quote_test.go: issue date + period is still accepted, one second later is not):
// collateral is valid for issueDate <= ts <= issueDate + period*24h.  Intel's nextUpdate is not
// part of the documented window (tracked by a probe only).  Certificates are valid for
// NotBefore <= ts <= NotAfter (RFC 5280).

// TimeSpec is a symbolic verification time: a named boundary plus an offset in nanoseconds.
type TimeSpec struct {
	Base string `json:"base"`
	Off  int64  `json:"off,omitempty"`
}

// ModSpec is a symbolic allowed-TDX-module entry.
type ModSpec struct {
	Seam   string `json:"seam,omitempty"` // "" (any), "self", "other"
	Signer string `json:"signer"`         // "self", "other"
}

// PolSpec is a symbolic quote policy.
type PolSpec struct {
	Nil      bool      `json:"nil,omitempty"` // pass a nil policy (defaults apply)
	Disabled bool      `json:"disabled,omitempty"`
	Period   int       `json:"period"`
	MinRel   string    `json:"min_rel,omitempty"` // "", "tcb", "qe", "lo", "hi": base of Min
	Min      int64     `json:"min"`
	WL       []string  `json:"wl,omitempty"` // "self", "selfcase", "other", "junk"
	BL       []string  `json:"bl,omitempty"`
	TDX      string    `json:"tdx,omitempty"` // "" (nil), "any" (empty module list), "mods"
	Mods     []ModSpec `json:"mods,omitempty"`
}

// rPolicy is a resolved policy.
type rPolicy struct {
	Nil      bool
	Disabled bool
	Period   uint16
	Min      uint32
	WL, BL   []string
	TDX      bool
	Mods     []rMod
}

type rMod struct {
	Seam   *[48]byte
	Signer [48]byte
}

func flipCase(s string) string {
	if s == strings.ToUpper(s) {
		return strings.ToLower(s)
	}
	return strings.ToUpper(s)
}

func resolveList(l []string, tcb *tcbDoc) []string {
	var out []string
	for _, e := range l {
		switch e {
		case "self":
			out = append(out, tcb.M.FMSPC)
		case "selfcase":
			out = append(out, flipCase(tcb.M.FMSPC))
		case "other":
			out = append(out, "00606A000001")
		case "prefix":
			out = append(out, tcb.M.FMSPC[:10])
		case "junk":
			out = append(out, "zz")
		case "empty":
			out = append(out, "")
		default:
			out = append(out, e)
		}
	}
	return out
}

func clampU(v, hi int64) int64 {
	if v < 0 {
		return 0
	}
	if v > hi {
		return hi
	}
	return v
}

func (p *PolSpec) resolve(tcb *tcbDoc, qe *qeDoc, seam, signer []byte) *rPolicy {
	if p == nil {
		p = &PolSpec{Period: 30, Min: 12}
	}
	if p.Nil {
		return &rPolicy{Nil: true, Period: 30, Min: pcs.DefaultMinTCBEvaluationDataNumber}
	}
	r := &rPolicy{Disabled: p.Disabled, Period: uint16(clampU(int64(p.Period), 65535))}
	base := int64(0)
	lo, hi := tcb.M.EvalNum, qe.M.EvalNum
	if lo > hi {
		lo, hi = hi, lo
	}
	switch p.MinRel {
	case "tcb":
		base = tcb.M.EvalNum
	case "qe":
		base = qe.M.EvalNum
	case "lo":
		base = lo
	case "hi":
		base = hi
	}
	r.Min = uint32(clampU(base+p.Min, 0xffffffff))
	r.WL = resolveList(p.WL, tcb)
	r.BL = resolveList(p.BL, tcb)
	switch p.TDX {
	case "any":
		r.TDX = true
	case "mods":
		r.TDX = true
		for _, m := range p.Mods {
			var rm rMod
			fill := func(dst *[48]byte, how string, self []byte) {
				switch how {
				case "self":
					copy(dst[:], self)
				default:
					copy(dst[:], self)
					dst[0] ^= 0x01
					dst[47] ^= 0x80
				}
			}
			if m.Seam != "" {
				rm.Seam = new([48]byte)
				fill(rm.Seam, m.Seam, seam)
			}
			fill(&rm.Signer, m.Signer, signer)
			r.Mods = append(r.Mods, rm)
		}
	}
	return r
}

// toPCS converts the resolved policy to the structure of the code under test.
func (r *rPolicy) toPCS() *pcs.QuotePolicy {
	if r.Nil {
		return nil
	}
	p := &pcs.QuotePolicy{
		Disabled:                   r.Disabled,
		TCBValidityPeriod:          r.Period,
		MinTCBEvaluationDataNumber: r.Min,
		FMSPCWhitelist:             r.WL,
		FMSPCBlacklist:             r.BL,
	}
	if r.TDX {
		p.TDX = &pcs.TdxQuotePolicy{}
		for _, m := range r.Mods {
			mp := pcs.TdxModulePolicy{MrSignerSeam: m.Signer}
			if m.Seam != nil {
				s := *m.Seam
				mp.MrSeam = &s
			}
			p.TDX.AllowedTdxModules = append(p.TDX.AllowedTdxModules, mp)
		}
	}
	return p
}

// platform is what a quote says about the platform (from the PCK certificate and the reports).
type platform struct {
	TEE     string
	FMSPC   []byte
	CompSVN [16]int32
	PCESVN  uint16
	TdxSVN  *[16]byte
	QERep   []byte // 384-byte QE report
}

func (qd *quoteDoc) platform() *platform {
	p := &platform{TEE: qd.TEE, FMSPC: qd.FMSPC, CompSVN: qd.CompSVN, PCESVN: qd.PCESVN, QERep: qd.P.QERep}
	if qd.TEE == "tdx" {
		var s [16]byte
		copy(s[:], qd.TeeTcbSvn)
		p.TdxSVN = &s
	}
	return p
}

const day = 24 * time.Hour

func windowFails(prefix string, issue time.Time, period uint16, ts time.Time) []string {
	if ts.Before(issue) {
		return []string{prefix + "-future"}
	}
	if ts.After(issue.Add(time.Duration(period) * day)) {
		return []string{prefix + "-expired"}
	}
	return nil
}

func certFails(prefix string, chain []certInfo, ts time.Time) []string {
	var f []string
	for i, c := range chain {
		if ts.Before(c.NotBefore) {
			f = append(f, fmt.Sprintf("%s%d-notyet", prefix, i))
		} else if ts.After(c.NotAfter) {
			f = append(f, fmt.Sprintf("%s%d-expired", prefix, i))
		}
	}
	return f
}

// fmspcListed reports whether the FMSPC is on a policy list. Entries are hexadecimal encodings
// and are compared by value; exact tells whether some matching entry is also literally equal to
// the spelling used in the TCB info document.
func fmspcListed(list []string, fmspc []byte, spelling string) (listed, exact bool) {
	for _, e := range list {
		b, err := hex.DecodeString(e)
		if err != nil || !bytes.Equal(b, fmspc) {
			continue
		}
		listed = true
		if e == spelling {
			exact = true
		}
	}
	return listed, exact
}

func hexEq(s string, b []byte) bool {
	d, err := hex.DecodeString(s)
	return err == nil && bytes.Equal(d, b)
}

func maskedEq(val, mask, want []byte) bool {
	if len(val) != len(mask) || len(val) != len(want) {
		return false
	}
	for i := range val {
		if val[i]&mask[i] != want[i] {
			return false
		}
	}
	return true
}

// bundleFails lists every reason for which the collateral (genuine documents, genuine or
// foreign signer chain) must not be accepted for the platform at ts under pol.
func bundleFails(pf *platform, tcb *tcbDoc, qe *qeDoc, certsName string, certs []certInfo, ts time.Time, pol *rPolicy) []string {
	var f []string
	// TCB signing chain.
	if certsName != "certs" {
		f = append(f, "tcb-signer") // the documents are not signed by this chain's leaf
	}
	f = append(f, certFails("tcbcert", certs, ts)...)

	// QE identity.
	wantQE := map[string]string{"sgx": "QE", "tdx": "TD_QE"}[pf.TEE]
	if qe.M.ID != wantQE {
		f = append(f, "qe-id")
	}
	if qe.M.Version != 2 {
		f = append(f, "qe-version")
	}
	f = append(f, windowFails("qe", qe.M.issue, pol.Period, ts)...)
	if qe.M.EvalNum < int64(pol.Min) {
		f = append(f, "qe-evalnum")
	}
	rep := pf.QERep
	if !hexEq(qe.M.MRSIGNER, rep[128:160]) {
		f = append(f, "qe-mrsigner")
	}
	if qe.M.ISVProdID != int64(rep[256])|int64(rep[257])<<8 {
		f = append(f, "qe-prodid")
	}
	ms, e1 := hex.DecodeString(qe.M.MiscSelect)
	mm, e2 := hex.DecodeString(qe.M.MiscSelectMask)
	if e1 != nil || e2 != nil || len(ms) != 4 || !maskedEq(rep[16:20], mm, ms) {
		f = append(f, "qe-miscselect")
	}
	at, e1 := hex.DecodeString(qe.M.Attributes)
	am, e2 := hex.DecodeString(qe.M.AttributesMask)
	if e1 != nil || e2 != nil || len(at) != 16 || !maskedEq(rep[48:64], am, at) {
		f = append(f, "qe-attributes")
	}
	isvsvn := int64(rep[258]) | int64(rep[259])<<8
	qeStatus := "unsupported"
	for _, l := range qe.M.Levels {
		if l.TCB.ISVSVN <= isvsvn {
			qeStatus = l.Status
			break
		}
	}
	if qeStatus != "UpToDate" {
		f = append(f, "qe-level:"+qeStatus)
	}

	// TCB info.
	wantTCB := map[string]string{"sgx": "SGX", "tdx": "TDX"}[pf.TEE]
	if tcb.M.ID != wantTCB {
		f = append(f, "tcb-id")
	}
	if tcb.M.Version != 3 {
		f = append(f, "tcb-version")
	}
	f = append(f, windowFails("tcb", tcb.M.issue, pol.Period, ts)...)
	if tcb.M.EvalNum < int64(pol.Min) {
		f = append(f, "tcb-evalnum")
	}
	if len(pol.WL) > 0 {
		if ok, _ := fmspcListed(pol.WL, tcb.M.fmspc, tcb.M.FMSPC); !ok {
			f = append(f, "tcb-whitelist")
		}
	}
	if ok, exact := fmspcListed(pol.BL, tcb.M.fmspc, tcb.M.FMSPC); ok {
		if !exact {
			f = append(f, "tcb-blacklist-case")
		} else {
			f = append(f, "tcb-blacklist")
		}
	}
	if !bytes.Equal(tcb.M.fmspc, pf.FMSPC) {
		f = append(f, "tcb-fmspc")
	}
	f = append(f, tcbLevelFails(pf, tcb)...)
	return f
}

// tcbLevelFails implements the Intel TCB level selection (PCS API documentation, "Determining
// a TCB status of the platform") and the verifier's status rule: only UpToDate and
// SWHardeningNeeded platforms are acceptable.
func tcbLevelFails(pf *platform, tcb *tcbDoc) []string {
	status := "unsupported"
	for _, l := range tcb.M.Levels {
		ok := true
		for i := 0; i < 16; i++ {
			var want int64
			if i < len(l.TCB.SGX) {
				want = l.TCB.SGX[i].SVN
			}
			if int64(pf.CompSVN[i]) < want {
				ok = false
			}
		}
		if int64(pf.PCESVN) < l.TCB.PCESVN {
			ok = false
		}
		if pf.TdxSVN != nil {
			from := 0
			if pf.TdxSVN[1] != 0 {
				from = 2
			}
			for i := from; i < 16; i++ {
				var want int64
				if i < len(l.TCB.TDX) {
					want = l.TCB.TDX[i].SVN
				}
				if int64(pf.TdxSVN[i]) < want {
					ok = false
				}
			}
		}
		if ok {
			status = l.Status
			break
		}
	}
	var f []string
	if status != "UpToDate" && status != "SWHardeningNeeded" {
		f = append(f, "tcb-level:"+status)
	}
	if tcb.M.ID == "TDX" {
		if pf.TdxSVN == nil {
			return append(f, "tdx-svn-missing")
		}
		if v := pf.TdxSVN[1]; v >= 1 {
			id := fmt.Sprintf("TDX_%02d", v)
			mstatus := "module-unknown"
			for _, m := range tcb.M.Modules {
				if m.ID != id {
					continue
				}
				mstatus = "module-unsupported"
				for _, l := range m.Levels {
					if l.TCB.ISVSVN <= int64(pf.TdxSVN[0]) {
						mstatus = l.Status
						break
					}
				}
				break
			}
			if mstatus != "UpToDate" {
				f = append(f, "tdx-module-level:"+mstatus)
			}
		}
	}
	return f
}

// quoteFails lists every reason for which a genuine quote with genuine documents must not be
// accepted at ts under pol.
func quoteFails(qd *quoteDoc, tcb *tcbDoc, qe *qeDoc, certsName string, certs []certInfo, ts time.Time, pol *rPolicy) []string {
	var f []string
	if pol.Disabled {
		f = append(f, "disabled")
	}
	if qd.Debug {
		f = append(f, "debug")
	}
	if qd.TEE == "tdx" {
		if !pol.TDX {
			f = append(f, "tdx-not-allowed")
		} else {
			ok := false
			for _, m := range pol.Mods {
				if m.Seam != nil && !bytes.Equal(m.Seam[:], qd.MrSeam) {
					continue
				}
				if bytes.Equal(m.Signer[:], qd.MrSigner) {
					ok = true
				}
			}
			var zero [48]byte
			if len(pol.Mods) == 0 && bytes.Equal(qd.MrSigner, zero[:]) {
				ok = true
			}
			if !ok {
				f = append(f, "tdx-module")
			}
		}
	}
	if qd.Chain == nil {
		return append(f, "no-pck-chain")
	}
	f = append(f, certFails("pck", qd.Chain, ts)...)
	return append(f, bundleFails(qd.platform(), tcb, qe, certsName, certs, ts, pol)...)
}

// resolveTime resolves a symbolic time.
func resolveTime(t *TimeSpec, docTS int64, qd *quoteDoc, tcb *tcbDoc, qe *qeDoc, certs []certInfo, period uint16) (time.Time, bool) {
	var b time.Time
	pd := time.Duration(period) * day
	certAt := func(chain []certInfo, s string) (time.Time, bool) {
		// s = "<i>.nb" | "<i>.na"
		if len(s) != 4 || s[0] < '0' || int(s[0]-'0') >= len(chain) {
			return time.Time{}, false
		}
		if s[2:] == "nb" {
			return chain[s[0]-'0'].NotBefore, true
		}
		return chain[s[0]-'0'].NotAfter, true
	}
	ok := true
	switch {
	case t == nil || t.Base == "doc":
		b = time.Unix(docTS, 0)
	case t.Base == "unix":
		return time.Unix(t.Off, 0), true
	case t.Base == "in": // one hour after the later of the two issue dates
		b = tcb.M.issue
		if qe.M.issue.After(b) {
			b = qe.M.issue
		}
		b = b.Add(time.Hour)
	case t.Base == "tcb.issue":
		b = tcb.M.issue
	case t.Base == "tcb.next":
		b = tcb.M.next
	case t.Base == "tcb.exp":
		b = tcb.M.issue.Add(pd)
	case t.Base == "qe.issue":
		b = qe.M.issue
	case t.Base == "qe.next":
		b = qe.M.next
	case t.Base == "qe.exp":
		b = qe.M.issue.Add(pd)
	case strings.HasPrefix(t.Base, "pck") && qd != nil && qd.Chain != nil:
		b, ok = certAt(qd.Chain, t.Base[3:])
	case strings.HasPrefix(t.Base, "tcbc"):
		b, ok = certAt(certs, t.Base[4:])
	default:
		ok = false
	}
	if !ok {
		return time.Time{}, false
	}
	if t != nil {
		b = b.Add(time.Duration(t.Off))
	}
	return b, true
}
