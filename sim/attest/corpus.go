// Package attest is engine E6 (simattest): the PCS remote-attestation verifier
// (go/common/sgx/pcs) driven with the known-good SGX and TDX test vectors under an enumerated
// and seeded fault load (bit flips, byte edits, truncation, splices, signature substitutions,
// certificate-chain surgery, re-signing with harness keys), a verifier-clock sweep and a policy
// sweep, checked against (a) the original's verified identity/report data, (b) an independent
// classification of which bytes are covered by signatures and (c) an independent reference model
// of the time-window, policy and TCB-level rules computed from the collateral parsed by the
// harness itself.
package attest

import (
	"bytes"
	"crypto/x509"
	"encoding/binary"
	"encoding/hex"
	"encoding/json"
	"encoding/pem"
	"fmt"
	"os"
	"path/filepath"
	"sort"
	"sync"
	"time"

	"github.com/oasisprotocol/oasis-core/go/common/sgx/pcs"

	"verif/sim/core"
)

// span is a byte range of a quote.
type span struct{ Off, Len int }

func (s span) end() int { return s.Off + s.Len }

// Region names of a quote, in layout order.
const (
	rHeader  = "header"
	rReport  = "report"
	rSigLen  = "siglen"
	rSig     = "sig"
	rAttKey  = "attkey"
	rOuter   = "outer" // v4 only: certification data type/size envelope around the QE report
	rQERep   = "qereport"
	rQESig   = "qesig"
	rAuthLen = "authlen"
	rAuth    = "auth"
	rCDMeta  = "cdmeta"
	rCD      = "certdata"
	rTail    = "tail"
)

var regionOrder = []string{rHeader, rReport, rSigLen, rSig, rAttKey, rOuter, rQERep, rQESig, rAuthLen, rAuth, rCDMeta, rCD, rTail}

// signedRegion tells whether the bytes of a quote region are covered by a signature or a hash
// binding (so that no change of them may be accepted), as opposed to being a signature value
// (malleable), a length/type field (structural) or padding.
var signedRegion = map[string]bool{rHeader: true, rReport: true, rAttKey: true, rQERep: true, rAuth: true}

// quoteParts are the components of a quote; build() serialises them with consistent sizes.
type quoteParts struct {
	Version uint16
	Header  []byte
	Body    []byte
	Sig     []byte // 64
	AttKey  []byte // 64
	QERep   []byte // 384
	QESig   []byte // 64
	Auth    []byte
	CDType  uint16
	CD      []byte
	Tail    []byte // bytes inside the signature blob after the certification data
}

func (p *quoteParts) clone() *quoteParts {
	c := *p
	for _, f := range []*[]byte{&c.Header, &c.Body, &c.Sig, &c.AttKey, &c.QERep, &c.QESig, &c.Auth, &c.CD, &c.Tail} {
		*f = append([]byte(nil), *f...)
	}
	return &c
}

func (p *quoteParts) build() []byte {
	var inner bytes.Buffer
	inner.Write(p.QERep)
	inner.Write(p.QESig)
	var u16 [2]byte
	var u32 [4]byte
	binary.LittleEndian.PutUint16(u16[:], uint16(len(p.Auth)))
	inner.Write(u16[:])
	inner.Write(p.Auth)
	binary.LittleEndian.PutUint16(u16[:], p.CDType)
	inner.Write(u16[:])
	binary.LittleEndian.PutUint32(u32[:], uint32(len(p.CD)))
	inner.Write(u32[:])
	inner.Write(p.CD)
	inner.Write(p.Tail)

	var sig bytes.Buffer
	sig.Write(p.Sig)
	sig.Write(p.AttKey)
	if p.Version == 4 {
		binary.LittleEndian.PutUint16(u16[:], 6)
		sig.Write(u16[:])
		binary.LittleEndian.PutUint32(u32[:], uint32(inner.Len()))
		sig.Write(u32[:])
	}
	sig.Write(inner.Bytes())

	var out bytes.Buffer
	out.Write(p.Header)
	out.Write(p.Body)
	binary.LittleEndian.PutUint32(u32[:], uint32(sig.Len()))
	out.Write(u32[:])
	out.Write(sig.Bytes())
	return out.Bytes()
}

// layout is the harness' own parse of a (genuine) quote.
type layout struct {
	Version uint16
	TEE     uint32
	Regions map[string]span
	Total   int // length of the quote proper (without data trailing the signature blob)
}

func (l *layout) regionAt(off int) string {
	for _, n := range regionOrder {
		if s, ok := l.Regions[n]; ok && off >= s.Off && off < s.end() {
			return n
		}
	}
	return "beyond"
}

func (l *layout) get(q []byte, name string) []byte {
	s := l.Regions[name]
	return q[s.Off:s.end()]
}

// parseLayout parses the layout of a quote per the Intel ECDSA quote format (v3 / v4).
func parseLayout(q []byte) (*layout, error) {
	l := &layout{Regions: map[string]span{}}
	if len(q) < 48 {
		return nil, fmt.Errorf("short header")
	}
	l.Version = binary.LittleEndian.Uint16(q[0:])
	bodyLen := 384
	switch l.Version {
	case 3:
	case 4:
		l.TEE = binary.LittleEndian.Uint32(q[4:])
		if l.TEE == 0x81 {
			bodyLen = 584
		}
	default:
		return nil, fmt.Errorf("version %d", l.Version)
	}
	off := 0
	add := func(name string, n int) error {
		if n < 0 || off+n > len(q) {
			return fmt.Errorf("region %s (%d bytes at %d) exceeds quote length %d", name, n, off, len(q))
		}
		l.Regions[name] = span{off, n}
		off += n
		return nil
	}
	if err := add(rHeader, 48); err != nil {
		return nil, err
	}
	if err := add(rReport, bodyLen); err != nil {
		return nil, err
	}
	if err := add(rSigLen, 4); err != nil {
		return nil, err
	}
	sigLen := int(binary.LittleEndian.Uint32(q[off-4:]))
	sigEnd := off + sigLen
	if sigEnd > len(q) {
		return nil, fmt.Errorf("signature length")
	}
	for _, r := range []struct {
		n string
		l int
	}{{rSig, 64}, {rAttKey, 64}} {
		if err := add(r.n, r.l); err != nil {
			return nil, err
		}
	}
	if l.Version == 4 {
		if err := add(rOuter, 6); err != nil {
			return nil, err
		}
	}
	if err := add(rQERep, 384); err != nil {
		return nil, err
	}
	if err := add(rQESig, 64); err != nil {
		return nil, err
	}
	if err := add(rAuthLen, 2); err != nil {
		return nil, err
	}
	if err := add(rAuth, int(binary.LittleEndian.Uint16(q[off-2:]))); err != nil {
		return nil, err
	}
	if err := add(rCDMeta, 6); err != nil {
		return nil, err
	}
	if err := add(rCD, int(binary.LittleEndian.Uint32(q[off-4:]))); err != nil {
		return nil, err
	}
	if off > sigEnd {
		return nil, fmt.Errorf("certification data exceeds signature blob")
	}
	if off < sigEnd {
		if err := add(rTail, sigEnd-off); err != nil {
			return nil, err
		}
	}
	l.Total = sigEnd
	return l, nil
}

func (l *layout) parts(q []byte) *quoteParts {
	p := &quoteParts{
		Version: l.Version,
		Header:  l.get(q, rHeader), Body: l.get(q, rReport), Sig: l.get(q, rSig), AttKey: l.get(q, rAttKey),
		QERep: l.get(q, rQERep), QESig: l.get(q, rQESig), Auth: l.get(q, rAuth), CD: l.get(q, rCD),
		CDType: binary.LittleEndian.Uint16(l.get(q, rCDMeta)),
	}
	if _, ok := l.Regions[rTail]; ok {
		p.Tail = l.get(q, rTail)
	}
	return p.clone()
}

// certInfo is what the harness itself reads from a certificate (Go standard library parser).
type certInfo struct {
	DER       []byte
	TBS       []byte
	SPKI      []byte
	NotBefore time.Time
	NotAfter  time.Time
	CN        string
}

// parsePEMChain parses every CERTIFICATE block; ok=false when a block does not parse or has
// another type (the count of certificates is what matters to the caller).
func parsePEMChain(raw []byte) (certs []certInfo, ok bool) {
	for {
		blk, rest := pem.Decode(raw)
		if blk == nil {
			return certs, true
		}
		if blk.Type != "CERTIFICATE" {
			return certs, false
		}
		c, err := x509.ParseCertificate(blk.Bytes)
		if err != nil {
			return certs, false
		}
		certs = append(certs, certInfo{DER: c.Raw, TBS: c.RawTBSCertificate, SPKI: c.RawSubjectPublicKeyInfo, NotBefore: c.NotBefore, NotAfter: c.NotAfter, CN: c.Subject.CommonName})
		raw = rest
	}
}

func tbsList(cs []certInfo) [][]byte {
	var l [][]byte
	for _, c := range cs {
		l = append(l, c.TBS)
	}
	return l
}

func sameTBSList(a, b [][]byte) bool {
	if len(a) != len(b) {
		return false
	}
	for i := range a {
		if !bytes.Equal(a[i], b[i]) {
			return false
		}
	}
	return true
}

func sameTBSSet(a, b [][]byte) bool {
	if len(a) != len(b) {
		return false
	}
	x := append([][]byte(nil), a...)
	y := append([][]byte(nil), b...)
	less := func(s [][]byte) func(i, j int) bool {
		return func(i, j int) bool { return bytes.Compare(s[i], s[j]) < 0 }
	}
	sort.Slice(x, less(x))
	sort.Slice(y, less(y))
	return sameTBSList(x, y)
}

// chainEquivalent reports whether a certificate chain is, for the purposes of the property, the
// same as the genuine one: position by position the same certificate content, or (leaf only)
// another genuine Intel-issued certificate for the same public key (a re-issued PCK certificate
// of the same platform, as the tdx and tdx_tr vectors have).
func (c *corpus) chainEquivalent(got, want []certInfo) bool {
	if len(got) != len(want) {
		return false
	}
	for i := range got {
		if bytes.Equal(got[i].TBS, want[i].TBS) {
			continue
		}
		if i == 0 && c.Genuine[string(got[i].DER)] && bytes.Equal(got[i].SPKI, want[i].SPKI) {
			continue
		}
		return false
	}
	return true
}

func pemEncode(ders ...[]byte) []byte {
	var b bytes.Buffer
	for _, d := range ders {
		_ = pem.Encode(&b, &pem.Block{Type: "CERTIFICATE", Bytes: d})
	}
	return b.Bytes()
}

// ---- harness-side view of the collateral (own structs, own parsing) ----

type mTCBComponent struct {
	SVN int64 `json:"svn"`
}

type mTCBLevel struct {
	TCB struct {
		PCESVN int64           `json:"pcesvn"`
		SGX    []mTCBComponent `json:"sgxtcbcomponents"`
		TDX    []mTCBComponent `json:"tdxtcbcomponents"`
	} `json:"tcb"`
	Status string `json:"tcbStatus"`
}

type mEnclaveLevel struct {
	TCB struct {
		ISVSVN int64 `json:"isvsvn"`
	} `json:"tcb"`
	Status string `json:"tcbStatus"`
}

type mTDXModuleIdentity struct {
	ID     string          `json:"id"`
	Levels []mEnclaveLevel `json:"tcbLevels"`
}

type mTCBInfo struct {
	ID         string               `json:"id"`
	Version    int64                `json:"version"`
	IssueDate  string               `json:"issueDate"`
	NextUpdate string               `json:"nextUpdate"`
	FMSPC      string               `json:"fmspc"`
	EvalNum    int64                `json:"tcbEvaluationDataNumber"`
	Modules    []mTDXModuleIdentity `json:"tdxModuleIdentities"`
	Levels     []mTCBLevel          `json:"tcbLevels"`

	issue, next time.Time
	fmspc       []byte
}

type mQEIdentity struct {
	ID             string          `json:"id"`
	Version        int64           `json:"version"`
	IssueDate      string          `json:"issueDate"`
	NextUpdate     string          `json:"nextUpdate"`
	EvalNum        int64           `json:"tcbEvaluationDataNumber"`
	MiscSelect     string          `json:"miscselect"`
	MiscSelectMask string          `json:"miscselectMask"`
	Attributes     string          `json:"attributes"`
	AttributesMask string          `json:"attributesMask"`
	MRSIGNER       string          `json:"mrsigner"`
	ISVProdID      int64           `json:"isvprodid"`
	Levels         []mEnclaveLevel `json:"tcbLevels"`

	issue, next time.Time
}

// signedJSON is a genuine signed collateral document: body bytes exactly as signed + hex signature.
type signedJSON struct {
	Name string
	Body []byte
	Sig  string
}

// tcbDoc / qeDoc are genuine documents with the harness' own parse.
type tcbDoc struct {
	signedJSON
	M mTCBInfo
}

type qeDoc struct {
	signedJSON
	M mQEIdentity
}

// quoteDoc is a genuine quote with the harness' own parse of everything the model needs.
type quoteDoc struct {
	Name string
	Raw  []byte
	L    *layout
	P    *quoteParts
	TEE  string // "sgx" | "tdx"

	// From the report body.
	ReportData []byte
	MrSeam     []byte // tdx
	MrSigner   []byte // tdx: mrSignerSeam; sgx: mrsigner
	TeeTcbSvn  []byte // tdx
	Debug      bool

	// From the QE report.
	QE qeReportFields

	// From the PCK chain (nil when the quote carries no PCK chain).
	Chain   []certInfo
	FMSPC   []byte
	CompSVN [16]int32
	PCESVN  uint16
}

type qeReportFields struct {
	MiscSelect uint32
	Flags      uint64
	Xfrm       uint64
	MrSigner   []byte
	ISVProdID  uint16
	ISVSVN     uint16
}

func parseQEReport(r []byte) qeReportFields {
	return qeReportFields{
		MiscSelect: binary.LittleEndian.Uint32(r[16:]),
		Flags:      binary.LittleEndian.Uint64(r[48:]),
		Xfrm:       binary.LittleEndian.Uint64(r[56:]),
		MrSigner:   append([]byte(nil), r[128:160]...),
		ISVProdID:  binary.LittleEndian.Uint16(r[256:]),
		ISVSVN:     binary.LittleEndian.Uint16(r[258:]),
	}
}

// Intel SGX PCK certificate extension OIDs, DER-encoded (1.2.840.113741.1.13.1.x[.y]).
var oidSGXPrefix = []byte{0x2a, 0x86, 0x48, 0x86, 0xf8, 0x4d, 0x01, 0x0d, 0x01}

// findOIDValue finds `06 len <prefix> suffix...` followed by a primitive TLV and returns its content.
func findOIDValue(der []byte, suffix []byte, tag byte) ([]byte, bool) {
	oid := append(append([]byte{0x06, byte(len(oidSGXPrefix) + len(suffix))}, oidSGXPrefix...), suffix...)
	i := bytes.Index(der, oid)
	if i < 0 {
		return nil, false
	}
	p := i + len(oid)
	if p+2 > len(der) || der[p] != tag || der[p+1] >= 0x80 {
		return nil, false
	}
	n := int(der[p+1])
	if p+2+n > len(der) {
		return nil, false
	}
	return der[p+2 : p+2+n], true
}

func derInt(b []byte) int64 {
	var v int64
	for _, x := range b {
		v = v<<8 | int64(x)
	}
	return v
}

// parsePCK extracts FMSPC, the 16 component SVNs and PCESVN from a PCK leaf certificate by
// locating the Intel OIDs in the DER bytes (independent of the parser under test).
func (qd *quoteDoc) parsePCK() error {
	der := qd.Chain[0].DER
	f, ok := findOIDValue(der, []byte{0x04}, 0x04)
	if !ok || len(f) != 6 {
		return fmt.Errorf("no FMSPC in PCK certificate")
	}
	qd.FMSPC = append([]byte(nil), f...)
	for c := 1; c <= 16; c++ {
		v, ok := findOIDValue(der, []byte{0x02, byte(c)}, 0x02)
		if !ok {
			return fmt.Errorf("no TCB component %d in PCK certificate", c)
		}
		qd.CompSVN[c-1] = int32(derInt(v))
	}
	v, ok := findOIDValue(der, []byte{0x02, 17}, 0x02)
	if !ok {
		return fmt.Errorf("no PCESVN in PCK certificate")
	}
	qd.PCESVN = uint16(derInt(v))
	return nil
}

// vector is a documented (quote, collateral, time, policy) combination.
type vector struct {
	Name   string
	Quote  string
	TCB    string
	QE     string
	Certs  string
	TS     int64 // unix seconds
	TDX    bool  // documented policy allows TDX (empty module list)
	Accept bool  // documented verdict
}

// corpus is everything loaded from the repository's testdata.
type corpus struct {
	Dir     string
	Quotes  map[string]*quoteDoc
	TCBs    map[string]*tcbDoc
	QEs     map[string]*qeDoc
	Certs   map[string][]byte
	CertsCI map[string][]certInfo
	Vectors map[string]*vector
	// Genuine is the set of Intel-issued certificates (DER) found in the test vectors.
	Genuine map[string]bool
}

var vectorNames = []string{"sgx", "tdx", "tdx_tr", "tdx_ood", "eppid"}

// positive vectors (documented as verifying).
var positiveVectors = []string{"sgx", "tdx", "tdx_tr"}

var (
	corpusOnce sync.Once
	theCorpus  *corpus
)

// TestdataDir returns the directory of the test vectors in the repository under test.
func TestdataDir() string {
	repo := os.Getenv("VERIF_REPO")
	if repo == "" {
		repo = "/repo"
	}
	return filepath.Join(repo, "go", "common", "sgx", "pcs", "testdata")
}

func getCorpus() *corpus {
	corpusOnce.Do(func() { theCorpus = loadCorpus(TestdataDir()) })
	if theCorpus == nil {
		core.Harnessf("attest: test vectors in %s could not be loaded", TestdataDir())
	}
	return theCorpus
}

const tsFormat = "2006-01-02T15:04:05.999999999Z07:00" // RFC 3339 with optional fraction

func loadCorpus(dir string) *corpus {
	c := &corpus{Dir: dir, Quotes: map[string]*quoteDoc{}, TCBs: map[string]*tcbDoc{}, QEs: map[string]*qeDoc{}, Certs: map[string][]byte{}, CertsCI: map[string][]certInfo{}, Vectors: map[string]*vector{}, Genuine: map[string]bool{}}
	rd := func(n string) []byte {
		b, err := os.ReadFile(filepath.Join(dir, n))
		if err != nil {
			core.Harnessf("attest: cannot read test vector: %v", err)
		}
		return b
	}
	// Signed JSON documents: the body is taken as the exact bytes of the member value.
	split := func(n, key string) signedJSON {
		var w map[string]json.RawMessage
		if err := json.Unmarshal(rd(n), &w); err != nil {
			core.Harnessf("attest: %s: %v", n, err)
		}
		var sig string
		if err := json.Unmarshal(w["signature"], &sig); err != nil || len(w[key]) == 0 {
			core.Harnessf("attest: %s: missing %s/signature", n, key)
		}
		return signedJSON{Body: append([]byte(nil), w[key]...), Sig: sig}
	}
	for name, file := range map[string]string{
		"sgx_00606A": "tcb_info_v3_fmspc_00606A000000.json",
		"tdx_50806F": "tcb_info_v3_tdx_fmspc_50806F000000.json",
		"tdx_C0806F": "tcb_info_v3_tdx_fmspc_C0806F000000.json",
	} {
		d := &tcbDoc{signedJSON: split(file, "tcbInfo")}
		d.Name = name
		if err := json.Unmarshal(d.Body, &d.M); err != nil {
			core.Harnessf("attest: %s: %v", file, err)
		}
		var err1, err2, err3 error
		d.M.issue, err1 = time.Parse(tsFormat, d.M.IssueDate)
		d.M.next, err2 = time.Parse(tsFormat, d.M.NextUpdate)
		d.M.fmspc, err3 = hex.DecodeString(d.M.FMSPC)
		if err1 != nil || err2 != nil || err3 != nil || len(d.M.fmspc) != 6 {
			core.Harnessf("attest: %s: bad dates or fmspc", file)
		}
		c.TCBs[name] = d
	}
	for name, file := range map[string]string{
		"qe_sgx":  "qe_identity_v2.json",
		"qe_tdx":  "qe_identity_v2_tdx.json",
		"qe_tdx2": "qe_identity_v2_tdx2.json",
	} {
		d := &qeDoc{signedJSON: split(file, "enclaveIdentity")}
		d.Name = name
		if err := json.Unmarshal(d.Body, &d.M); err != nil {
			core.Harnessf("attest: %s: %v", file, err)
		}
		var err1, err2 error
		d.M.issue, err1 = time.Parse(tsFormat, d.M.IssueDate)
		d.M.next, err2 = time.Parse(tsFormat, d.M.NextUpdate)
		if err1 != nil || err2 != nil {
			core.Harnessf("attest: %s: bad dates", file)
		}
		c.QEs[name] = d
	}
	for name, file := range map[string]string{
		"certs":     "tcb_info_v3_fmspc_00606A000000_certs.pem",
		"certs_bad": "tcb_info_v3_fmspc_00606A000000_certs_bad.pem",
	} {
		c.Certs[name] = rd(file)
		ci, ok := parsePEMChain(c.Certs[name])
		if !ok || len(ci) != 2 {
			core.Harnessf("attest: %s: expected two certificates", file)
		}
		c.CertsCI[name] = ci
		for _, x := range ci {
			c.Genuine[string(x.DER)] = true
		}
	}
	for name, file := range map[string]string{
		"sgx":     "quote_v3_ecdsa_p256_pck_chain.bin",
		"tdx":     "quote_v4_tdx_ecdsa_p256.bin",
		"tdx_ood": "quote_v4_tdx_ecdsa_p256_out_of_date.bin",
		"tdx_tr":  "quote_v4_tdx_ecdsa_p256_trailing.bin",
		"eppid":   "quote_v3_ecdsa_p256_eppid.bin",
	} {
		raw := rd(file)
		l, err := parseLayout(raw)
		if err != nil {
			core.Harnessf("attest: %s: layout: %v", file, err)
		}
		raw = raw[:l.Total] // the "trailing" vector carries data after the quote proper
		qd := &quoteDoc{Name: name, Raw: raw, L: l, P: l.parts(raw), TEE: "sgx"}
		if !bytes.Equal(qd.P.build(), raw) {
			core.Harnessf("attest: %s: quote builder does not round-trip", file)
		}
		body := l.get(raw, rReport)
		if l.Version == 4 && l.TEE == 0x81 {
			qd.TEE = "tdx"
			qd.TeeTcbSvn = append([]byte(nil), body[0:16]...)
			qd.MrSeam = append([]byte(nil), body[16:64]...)
			qd.MrSigner = append([]byte(nil), body[64:112]...)
			qd.Debug = body[120]&1 != 0
			qd.ReportData = append([]byte(nil), body[520:584]...)
		} else {
			qd.MrSigner = append([]byte(nil), body[128:160]...)
			qd.Debug = binary.LittleEndian.Uint64(body[48:])&0x2 != 0
			qd.ReportData = append([]byte(nil), body[320:384]...)
		}
		qd.QE = parseQEReport(l.get(raw, rQERep))
		if qd.P.CDType == 5 {
			ci, ok := parsePEMChain(qd.P.CD)
			if !ok || len(ci) != 3 {
				core.Harnessf("attest: %s: expected a three-certificate PCK chain", file)
			}
			qd.Chain = ci
			for _, x := range ci {
				c.Genuine[string(x.DER)] = true
			}
			if err := qd.parsePCK(); err != nil {
				core.Harnessf("attest: %s: %v", file, err)
			}
		}
		c.Quotes[name] = qd
	}
	// Documented combinations (quote_test.go).
	c.Vectors["sgx"] = &vector{Name: "sgx", Quote: "sgx", TCB: "sgx_00606A", QE: "qe_sgx", Certs: "certs", TS: 1671497404, Accept: true}
	c.Vectors["tdx"] = &vector{Name: "tdx", Quote: "tdx", TCB: "tdx_C0806F", QE: "qe_tdx2", Certs: "certs", TS: 1725263032, TDX: true, Accept: true}
	// The quote of the "trailing data" test (trimmed) is a third genuine TDX quote of the same
	// platform family; its PCK certificate is valid from 2024-09-20T11:12:20Z.
	c.Vectors["tdx_tr"] = &vector{Name: "tdx_tr", Quote: "tdx_tr", TCB: "tdx_C0806F", QE: "qe_tdx2", Certs: "certs", TS: 1726900000, TDX: true, Accept: true}
	c.Vectors["tdx_ood"] = &vector{Name: "tdx_ood", Quote: "tdx_ood", TCB: "tdx_50806F", QE: "qe_tdx", Certs: "certs", TS: 1687091776, TDX: true, Accept: false}
	c.Vectors["eppid"] = &vector{Name: "eppid", Quote: "eppid", TCB: "sgx_00606A", QE: "qe_sgx", Certs: "certs", TS: 1671497404, Accept: false}
	return c
}

// bundle builds the structure under test from raw artefacts.
func makeBundle(tcbBody []byte, tcbSig string, qeBody []byte, qeSig string, certs []byte) *pcs.TCBBundle {
	return &pcs.TCBBundle{
		TCBInfo:      pcs.SignedTCBInfo{TCBInfo: json.RawMessage(tcbBody), Signature: tcbSig},
		QEIdentity:   pcs.SignedQEIdentity{EnclaveIdentity: json.RawMessage(qeBody), Signature: qeSig},
		Certificates: certs,
	}
}
