package decode

import (
	"bytes"
	"context"
	"encoding/binary"
	"encoding/json"
	"errors"
	"fmt"
	"hash/crc32"
	"io"
	"net"
	"os"
	"path/filepath"
	"reflect"
	"sort"
	"sync"
	"time"

	"github.com/golang/snappy"

	beacon "github.com/oasisprotocol/oasis-core/go/beacon/api"
	"github.com/oasisprotocol/oasis-core/go/common"
	"github.com/oasisprotocol/oasis-core/go/common/cbor"
	"github.com/oasisprotocol/oasis-core/go/common/crypto/hash"
	"github.com/oasisprotocol/oasis-core/go/common/crypto/signature"
	memorySigner "github.com/oasisprotocol/oasis-core/go/common/crypto/signature/signers/memory"
	"github.com/oasisprotocol/oasis-core/go/common/entity"
	"github.com/oasisprotocol/oasis-core/go/common/logging"
	"github.com/oasisprotocol/oasis-core/go/common/node"
	"github.com/oasisprotocol/oasis-core/go/common/quantity"
	"github.com/oasisprotocol/oasis-core/go/common/sgx"
	"github.com/oasisprotocol/oasis-core/go/common/sgx/ias"
	"github.com/oasisprotocol/oasis-core/go/common/sgx/pcs"
	sgxQuote "github.com/oasisprotocol/oasis-core/go/common/sgx/quote"
	"github.com/oasisprotocol/oasis-core/go/common/version"
	consensus "github.com/oasisprotocol/oasis-core/go/consensus/api"
	"github.com/oasisprotocol/oasis-core/go/consensus/api/transaction"
	governance "github.com/oasisprotocol/oasis-core/go/governance/api"
	"github.com/oasisprotocol/oasis-core/go/keymanager/churp"
	"github.com/oasisprotocol/oasis-core/go/keymanager/secrets"
	registry "github.com/oasisprotocol/oasis-core/go/registry/api"
	roothash "github.com/oasisprotocol/oasis-core/go/roothash/api"
	"github.com/oasisprotocol/oasis-core/go/roothash/api/commitment"
	"github.com/oasisprotocol/oasis-core/go/roothash/api/message"
	scheduler "github.com/oasisprotocol/oasis-core/go/scheduler/api"
	staking "github.com/oasisprotocol/oasis-core/go/staking/api"
	"github.com/oasisprotocol/oasis-core/go/storage/mkvs"
	"github.com/oasisprotocol/oasis-core/go/storage/mkvs/checkpoint"
	dbapi "github.com/oasisprotocol/oasis-core/go/storage/mkvs/db/api"
	mkvsnode "github.com/oasisprotocol/oasis-core/go/storage/mkvs/node"
	"github.com/oasisprotocol/oasis-core/go/storage/mkvs/syncer"
	"github.com/oasisprotocol/oasis-core/go/storage/mkvs/writelog"
	vault "github.com/oasisprotocol/oasis-core/go/vault/api"

	"verif/sim/core"
	"verif/sim/store"
)

// ChainContext is the signature domain-separation context of the decoder corpus.
const ChainContext = "verif-c16-decoders-chain-context"

// AllMethods lists every consensus transaction method of the repository (the body type of each
// is registered with the transaction package).
func AllMethods() []transaction.MethodName {
	return []transaction.MethodName{
		staking.MethodTransfer, staking.MethodBurn, staking.MethodAddEscrow, staking.MethodReclaimEscrow, staking.MethodAmendCommissionSchedule, staking.MethodAllow, staking.MethodWithdraw,
		registry.MethodRegisterEntity, registry.MethodDeregisterEntity, registry.MethodRegisterNode, registry.MethodUnfreezeNode, registry.MethodRegisterRuntime, registry.MethodProveFreshness,
		governance.MethodSubmitProposal, governance.MethodCastVote,
		roothash.MethodExecutorCommit, roothash.MethodEvidence, roothash.MethodSubmitMsg,
		vault.MethodCreate, vault.MethodAuthorizeAction, vault.MethodCancelAction,
		beacon.MethodSetEpoch, beacon.MethodVRFProve,
		secrets.MethodUpdatePolicy, secrets.MethodPublishMasterSecret, secrets.MethodPublishEphemeralSecret,
		churp.MethodCreate, churp.MethodUpdate, churp.MethodApply, churp.MethodConfirm,
		consensus.MethodMeta,
	}
}

// Target is one untrusted decode/verify boundary with valid sample encodings.
type Target struct {
	Name   string
	Family string // "cbor" | "bin"
	Valid  [][]byte
	// Call presents b at the boundary: every exported decode and verify step a consumer performs.
	// It reports whether the first decode stage accepted the input. Panics propagate to the meter.
	Call func(e *Env, b []byte) bool
	// Prep, when set, prepares the environment for the call outside the measured region.
	Prep func(e *Env, b []byte)
	// Mutate, when set, replaces the default operator of the family (formats with an inner layer).
	Mutate func(valid []byte, op MutOp) ([]byte, string, bool)
	// Kinds, when set, are the operator kinds drawn for this target instead of the family's.
	Kinds []string
	// Unders are map keys that operators are sometimes confined to.
	Unders []string
}

// Env is the per-scenario mutable environment (scratch node database and restorer).
type Env struct {
	c        *Corpus
	ctx      context.Context
	dst      dbapi.NodeDB
	restorer checkpoint.Restorer
	started  bool
	cur      *checkpoint.Metadata
	// Probe is the depth probe of the most recent reader-based call.
	Probe *DepthProbe
}

// Close releases the scratch database.
func (e *Env) Close() {
	if e.dst != nil {
		if e.started {
			_ = e.restorer.AbortRestore(e.ctx)
			_ = e.dst.AbortMultipartInsert()
		}
		e.dst.Close()
		e.dst = nil
	}
}

// Corpus holds all targets.
type Corpus struct {
	Targets []*Target
	byName  map[string]*Target
	// Broken is set when the code under test panicked on a valid sample while the corpus was
	// checked (reported by every scenario of the process).
	Broken *core.Violation

	logger  *logging.Logger
	rtID    common.Namespace
	root    mkvsnode.Root
	cpMeta  *checkpoint.Metadata
	cpChunk [][]byte

	nodeSigners []signature.Signer
	entSigner   signature.Signer
	regParams   *registry.ConsensusParameters
	ent         *entity.Entity
	runtimes    []*registry.Runtime
	sgxRuntime  *registry.Runtime
	vectors     []sgxVector
	constraints []byte
}

type sgxVector struct {
	name   string
	quote  []byte
	bundle pcs.QuoteBundle
	ts     time.Time
	policy *pcs.QuotePolicy
}

var (
	corpusOnce sync.Once
	theCorpus  *Corpus
)

// GetCorpus builds the corpus once per process. The signature chain context must be ChainContext.
func GetCorpus() *Corpus {
	corpusOnce.Do(func() {
		pv, stack := core.Guard(func() { theCorpus = buildCorpus() })
		if pv != nil {
			core.Harnessf("decode: building the corpus of valid encodings panicked: %v\n%s", pv, stack)
		}
	})
	return theCorpus
}

// SetChainContext sets the process-wide signature chain context to the corpus' context.
func SetChainContext() {
	signature.UnsafeResetChainContext()
	signature.SetChainContext(ChainContext)
}

// Target returns a target by name.
func (c *Corpus) Target(name string) *Target { return c.byName[name] }

func (c *Corpus) add(t *Target) {
	if len(t.Valid) == 0 {
		core.Harnessf("decode: target %s has no valid samples", t.Name)
	}
	c.Targets = append(c.Targets, t)
	c.byName[t.Name] = t
}

func must(err error, what string) {
	if err != nil {
		core.Harnessf("decode corpus: %s: %v", what, err)
	}
}

func repoDir() string {
	if d := os.Getenv("VERIF_REPO"); d != "" {
		return d
	}
	return "/repo"
}

func buildCorpus() *Corpus {
	c := &Corpus{byName: map[string]*Target{}, logger: logging.GetLogger("verif/c16")}
	c.rtID = common.NewTestNamespaceFromSeed([]byte("verif/c16/runtime"), common.NamespaceTest)
	c.buildMKVS()
	c.buildRoothash()
	c.buildSGX()
	c.buildRegistry()
	c.buildTransactions()
	// Every valid sample must be accepted by its target (the corpus is valid by construction).
	env := c.NewEnv()
	defer env.Close()
	for _, t := range c.Targets {
		for i, b := range t.Valid {
			var ok bool
			pv, stack := core.Guard(func() { ok = t.Call(env, b) })
			if pv != nil {
				if _, harness := pv.(*core.HarnessError); harness {
					panic(pv)
				}
				// The code under test panics on a VALID encoding: that is a verdict, not harness
				// trouble. Every scenario of this process reports it.
				if c.Broken == nil {
					site := core.PanicSite(stack, "oasis-core/go/")
					c.Broken = &core.Violation{Property: "C16", Kind: "panic", Fingerprint: "panic " + t.Name + " at " + site,
						Detail: fmt.Sprintf("target %s panicked on its VALID sample %d (%d bytes, no corruption applied): %v\n%s", t.Name, i, len(b), pv, stack)}
				}
				continue
			}
			if !ok {
				core.Harnessf("decode corpus: target %s rejects its valid sample %d (%d bytes)", t.Name, i, len(b))
			}
		}
	}
	return c
}

// NewEnv creates the per-scenario environment.
func (c *Corpus) NewEnv() *Env { return &Env{c: c, ctx: context.Background()} }

// ---------------------------------------------------------------------------------------------
// MKVS: nodes, keys, proofs (both versions), write logs, checkpoint metadata and chunks.

func (c *Corpus) buildMKVS() {
	ctx := context.Background()
	ndb := store.OpenDB("badger", "")
	defer ndb.Close()
	t := mkvs.New(nil, ndb, mkvsnode.RootTypeState)
	r := core.NewRand(0xc16)
	var keys [][]byte
	for i := 0; i < 70; i++ {
		var k []byte
		switch i % 5 {
		case 0:
			k = append([]byte("verif/c16/"), r.Bytes(r.Range(1, 8))...)
		case 1:
			k = r.Bytes(r.Range(1, 4))
		case 2:
			k = append(bytes.Repeat([]byte{0xAB}, r.Range(20, 200)), byte(i))
		case 3:
			k = []byte{byte(i)}
		default:
			k = r.Bytes(r.Range(20, 40))
		}
		keys = append(keys, k)
		val := r.Bytes([]int{0, 1, 7, 32, 300, 2000}[i%6])
		if val == nil {
			val = []byte{}
		}
		must(t.Insert(ctx, k, val), "tree insert")
	}
	wl, rootHash, err := t.Commit(ctx, store.Namespace, 1)
	must(err, "tree commit")
	// The order of a commit's write log is not deterministic (map iteration): fix it.
	sort.Slice(wl, func(i, j int) bool { return bytes.Compare(wl[i].Key, wl[j].Key) < 0 })
	c.root = mkvsnode.Root{Namespace: store.Namespace, Version: 1, Type: mkvsnode.RootTypeState, Hash: rootHash}
	must(ndb.Finalize([]mkvsnode.Root{c.root}), "finalize")

	// Proofs of both versions from the real tree, and full node encodings recovered from them.
	var proofs [][]byte
	nodeSeen := map[string]bool{}
	var nodes, keyEncs [][]byte
	addNode := func(b []byte) {
		if !nodeSeen[string(b)] && len(nodes) < 48 {
			nodeSeen[string(b)] = true
			nodes = append(nodes, b)
		}
	}
	var collect func(p *mkvsnode.Pointer)
	collect = func(p *mkvsnode.Pointer) {
		if p == nil || p.Node == nil {
			return
		}
		b, err := p.Node.MarshalBinary()
		must(err, "node marshal")
		addNode(b)
		if in, ok := p.Node.(*mkvsnode.InternalNode); ok {
			cb, _ := in.CompactMarshalBinaryV0()
			addNode(cb)
			cb1, _ := in.CompactMarshalBinaryV1()
			addNode(cb1)
			collect(in.LeafNode)
			collect(in.Left)
			collect(in.Right)
		}
	}
	tid := syncer.TreeID{Root: c.root, Position: c.root.Hash}
	var pv syncer.ProofVerifier
	for ver := uint16(0); ver <= 1; ver++ {
		for i, k := range [][]byte{keys[0], keys[2], keys[3], []byte("absent-key")} {
			rsp, err := t.SyncGet(ctx, &syncer.GetRequest{Tree: tid, Key: k, IncludeSiblings: i%2 == 0, ProofVersion: ver})
			must(err, "SyncGet")
			proofs = append(proofs, cbor.Marshal(rsp.Proof))
			ptr, err := pv.VerifyProof(ctx, c.root.Hash, &rsp.Proof)
			must(err, "verify honest proof")
			collect(ptr)
		}
		rsp, err := t.SyncIterate(ctx, &syncer.IterateRequest{Tree: tid, Key: keys[1], Prefetch: 12, ProofVersion: ver})
		must(err, "SyncIterate")
		proofs = append(proofs, cbor.Marshal(rsp.Proof))
		rsp, err = t.SyncGetPrefixes(ctx, &syncer.GetPrefixesRequest{Tree: tid, Prefixes: [][]byte{[]byte("verif/")}, Limit: 8, ProofVersion: ver})
		must(err, "SyncGetPrefixes")
		proofs = append(proofs, cbor.Marshal(rsp.Proof))
	}
	for _, k := range [][]byte{{}, keys[0], keys[2], keys[3]} {
		b, _ := mkvsnode.Key(k).MarshalBinary()
		keyEncs = append(keyEncs, b)
	}

	c.add(&Target{Name: "mkvs.node", Family: "bin", Valid: nodes, Call: func(_ *Env, b []byte) bool {
		n, err := mkvsnode.UnmarshalBinary(b)
		var in mkvsnode.InternalNode
		_, _ = in.SizedUnmarshalBinary(b)
		var lf mkvsnode.LeafNode
		_, _ = lf.SizedUnmarshalBinary(b)
		if err != nil {
			return false
		}
		// An accepted node is re-encoded, hashed and decoded again.
		rb, _ := n.MarshalBinary()
		_ = n.GetHash()
		_ = n.Size()
		n.UpdateHash()
		_ = n.Extract
		if n2, err := mkvsnode.UnmarshalBinary(rb); err == nil {
			_ = n2.Equal(n)
		}
		switch x := n.(type) {
		case *mkvsnode.InternalNode:
			_, _ = x.CompactMarshalBinaryV0()
			_, _ = x.CompactMarshalBinaryV1()
		case *mkvsnode.LeafNode:
			_, _ = x.CompactMarshalBinaryV1()
		}
		return true
	}})
	c.add(&Target{Name: "mkvs.key", Family: "bin", Valid: keyEncs, Call: func(_ *Env, b []byte) bool {
		var k mkvsnode.Key
		n, err := k.SizedUnmarshalBinary(b)
		var k2 mkvsnode.Key
		_ = k2.UnmarshalBinary(b)
		if err != nil {
			return false
		}
		_ = n
		rb, _ := k.MarshalBinary()
		_ = k.BitLength()
		if len(k) > 0 {
			_ = k.GetBit(k.BitLength() - 1)
			_, _ = k.Split(k.BitLength()/2, k.BitLength())
		}
		_ = k.Equal(k2)
		_ = rb
		return true
	}})
	proofCall := func(_ *Env, b []byte) bool {
		var p syncer.Proof
		if err := cbor.Unmarshal(b, &p); err != nil {
			return false
		}
		var v syncer.ProofVerifier
		_, _ = v.VerifyProof(ctx, c.root.Hash, &p)
		// The prover chooses the untrusted root: verification against it goes past the sanity check.
		_, verr := v.VerifyProof(ctx, p.UntrustedRoot, &p)
		_, _ = v.VerifyProofToWriteLog(ctx, p.UntrustedRoot, &p)
		var rsp syncer.ProofResponse
		_ = cbor.Unmarshal(cbor.Marshal(&syncer.ProofResponse{Proof: p}), &rsp)
		// "Accepted" for proofs means: decoded and verified against the root the prover named.
		return verr == nil
	}
	c.add(&Target{Name: "mkvs.proof", Family: "cbor", Valid: proofs, Call: proofCall, Unders: []string{"entries"}})
	c.add(&Target{Name: "mkvs.proof.entries", Family: "bin", Valid: proofs, Call: proofCall, Kinds: append(append([]string{}, BinKinds...), "deep", "deep", "nilentries"),
		Mutate: func(valid []byte, op MutOp) ([]byte, string, bool) {
			var p syncer.Proof
			if err := cbor.Unmarshal(valid, &p); err != nil || len(p.Entries) == 0 {
				return valid, "", false
			}
			switch op.K {
			case "deep":
				p.Entries = deepProofEntries(op)
				return cbor.Marshal(p), fmt.Sprintf("deep proof: %d nested internal nodes (v%d)", deepLevels(op), p.V), true
			case "nilentries":
				p.Entries = make([][]byte, 1+op.N%5000)
				return cbor.Marshal(p), fmt.Sprintf("%d nil entries", len(p.Entries)), true
			}
			var idx []int
			for i, e := range p.Entries {
				if len(e) > 0 {
					idx = append(idx, i)
				}
			}
			if len(idx) == 0 {
				return valid, "", false
			}
			i := idx[op.N%len(idx)]
			m, what, ok := MutateBytes(p.Entries[i], op)
			if !ok {
				return valid, "", false
			}
			p.Entries[i] = m
			return cbor.Marshal(p), fmt.Sprintf("entry %d: %s", i, what), true
		}})

	c.add(&Target{Name: "mkvs.writelog", Family: "cbor", Valid: [][]byte{cbor.Marshal(wl), cbor.Marshal(wl[:3]), cbor.Marshal(writelog.WriteLog{})}, Call: func(_ *Env, b []byte) bool {
		var w writelog.WriteLog
		if err := cbor.Unmarshal(b, &w); err != nil {
			return false
		}
		it := writelog.NewStaticIterator(w)
		for {
			more, err := it.Next()
			if !more || err != nil {
				break
			}
			e, _ := it.Value()
			_ = e.Type()
		}
		_ = w.Equal(wl)
		return true
	}})

	// A real checkpoint of the tree.
	dir := store.ScratchDir("c16cp")
	defer os.RemoveAll(dir)
	cr, err := checkpoint.NewFileCreator(filepath.Join(dir, "cp"), ndb)
	must(err, "NewFileCreator")
	meta, err := cr.CreateCheckpoint(ctx, c.root, 2048, 0)
	must(err, "CreateCheckpoint")
	c.cpMeta = meta
	for i := range meta.Chunks {
		cm, err := meta.GetChunkMetadata(uint64(i))
		must(err, "GetChunkMetadata")
		var buf bytes.Buffer
		must(cr.GetCheckpointChunk(ctx, cm, &buf), "GetCheckpointChunk")
		c.cpChunk = append(c.cpChunk, buf.Bytes())
	}
	if len(c.cpChunk) < 2 {
		core.Harnessf("decode corpus: checkpoint has %d chunks", len(c.cpChunk))
	}
	c.add(&Target{Name: "cp.metadata", Family: "cbor", Valid: [][]byte{cbor.Marshal(meta)}, Call: func(_ *Env, b []byte) bool {
		var m checkpoint.Metadata
		if err := cbor.Unmarshal(b, &m); err != nil {
			return false
		}
		_ = m.Validate()
		_ = m.EncodedHash()
		for i := 0; i < len(m.Chunks) && i < 4; i++ {
			_, _ = m.GetChunkMetadata(uint64(i))
		}
		_, _ = m.GetChunkMetadata(uint64(len(m.Chunks)))
		return true
	}})
	// Chunks: the valid samples carry a one-byte prefix (chunk index) so that the call knows which
	// chunk of the checkpoint the bytes claim to be; a second prefix byte tells whether the
	// attacker also controls the digest list.
	var chunkSamples [][]byte
	for i, ch := range c.cpChunk {
		if i < 6 {
			chunkSamples = append(chunkSamples, append([]byte{byte(i), 0}, ch...))
		}
	}
	c.add(&Target{Name: "cp.chunk", Family: "bin", Valid: chunkSamples, Prep: func(e *Env, b []byte) {
		if len(b) >= 2 {
			e.prepareRestore(int(b[0]), b[1] == 1, b[2:])
		}
	}, Call: func(e *Env, b []byte) bool {
		if len(b) < 2 {
			return false
		}
		return e.restoreChunk(int(b[0]), b[1] == 1, b[2:])
	}, Kinds: []string{"raw", "raw", "raw", "entry", "entry", "entry", "frame", "frame", "frame", "frag", "frag", "deep", "deep", "hugeentry", "hugeentry", "trickle"}, Mutate: c.mutateChunk})
}

func deepLevels(op MutOp) int {
	return []int{100, 127, 128, 129, 130, 1000, 20000, 100000}[op.V%8]
}

// deepProofEntries builds the entries of a proof that nests k internal nodes (each the left
// child of the previous one), in the entry layout of both proof versions.
func deepProofEntries(op MutOp) [][]byte {
	k := deepLevels(op)
	inode := []byte{0x01, mkvsnode.PrefixInternalNode, 0x00, 0x00, mkvsnode.PrefixNilNode}
	var es [][]byte
	for i := 0; i < k; i++ {
		es = append(es, inode)
		if op.N%2 == 1 {
			es = append(es, nil) // v1 layout: the node's own leaf entry
		}
	}
	for i := 0; i < k+1; i++ {
		es = append(es, nil)
	}
	return es
}

// prepareRestore makes sure a restore is in progress whose metadata fits the chunk about to be
// presented (the attacker may also control the digest list).
func (e *Env) prepareRestore(idx int, attackerDigests bool, data []byte) {
	c := e.c
	if e.dst == nil {
		e.dst = store.OpenDB("badger", "")
		var err error
		if e.restorer, err = checkpoint.NewRestorer(e.dst); err != nil {
			core.Harnessf("decode: NewRestorer: %v", err)
		}
	}
	idx %= len(c.cpMeta.Chunks)
	meta := c.cpMeta
	if attackerDigests {
		m2 := *c.cpMeta
		m2.Chunks = append([]hash.Hash{}, c.cpMeta.Chunks...)
		m2.Chunks[idx] = hash.NewFromBytes(data)
		meta = &m2
	}
	if e.started && (attackerDigests || e.cur != meta || e.restorer.GetCurrentCheckpoint() == nil) {
		_ = e.restorer.AbortRestore(e.ctx)
		_ = e.dst.AbortMultipartInsert()
		e.started = false
	}
	if !e.started {
		if err := e.dst.StartMultipartInsert(meta.Root.Version); err != nil {
			core.Harnessf("decode: StartMultipartInsert: %v", err)
		}
		if err := e.restorer.StartRestore(e.ctx, meta); err != nil {
			core.Harnessf("decode: StartRestore: %v", err)
		}
		e.started, e.cur = true, meta
	}
}

// restoreChunk feeds a chunk to a real Restorer on a scratch node database.
func (e *Env) restoreChunk(idx int, attackerDigests bool, data []byte) bool {
	if !e.started || e.restorer.GetCurrentCheckpoint() == nil {
		e.prepareRestore(idx, attackerDigests, data) // re-measurement attempts
	}
	idx %= len(e.c.cpMeta.Chunks)
	e.Probe = &DepthProbe{R: bytes.NewReader(data)}
	_, err := e.restorer.RestoreChunk(e.ctx, uint64(idx), e.Probe)
	if err == nil || errors.Is(err, checkpoint.ErrChunkAlreadyRestored) {
		// Accepted: start over so that the next call sees a fresh restore.
		_ = e.restorer.AbortRestore(e.ctx)
		_ = e.dst.AbortMultipartInsert()
		e.started = false
	}
	return err == nil
}

// chunkEntries decodes a chunk into its entries (harness-side); nil when it does not decode
// (a chunk that an earlier operator of the same case already corrupted).
func chunkEntries(data []byte) (es [][]byte) {
	pv, _ := core.Guard(func() {
		dec := cbor.NewDecoder(snappy.NewReader(bytes.NewReader(data)))
		for len(es) < 100000 {
			var e []byte
			if err := dec.Decode(&e); err != nil {
				if !errors.Is(err, io.EOF) {
					es = nil
				}
				return
			}
			es = append(es, e)
		}
	})
	if pv != nil {
		return nil
	}
	return es
}

func snappyStream(plain []byte) []byte {
	var buf bytes.Buffer
	sw := snappy.NewBufferedWriter(&buf)
	_, _ = sw.Write(plain)
	_ = sw.Close()
	return buf.Bytes()
}

// snappyFragmented frames plain as a snappy stream of uncompressed chunks of n bytes each.
func snappyFragmented(plain []byte, n int) []byte {
	out := []byte{0xff, 0x06, 0x00, 0x00, 's', 'N', 'a', 'P', 'p', 'Y'}
	tab := crc32.MakeTable(crc32.Castagnoli)
	for off := 0; off < len(plain); off += n {
		end := off + n
		if end > len(plain) {
			end = len(plain)
		}
		d := plain[off:end]
		crc := crc32.Checksum(d, tab)
		crc = (crc>>15 | crc<<17) + 0xa282ead8
		l := len(d) + 4
		out = append(out, 0x01, byte(l), byte(l>>8), byte(l>>16))
		out = binary.LittleEndian.AppendUint32(out, crc)
		out = append(out, d...)
	}
	return out
}

func cborBytes(b []byte) []byte {
	if b == nil {
		return []byte{0xf6}
	}
	return append(head(2, uint64(len(b)), 0), b...)
}

func (c *Corpus) mutateChunk(valid []byte, op MutOp) ([]byte, string, bool) {
	pre := []byte{valid[0], 0}
	if op.Seed%3 == 0 {
		pre[1] = 1
	}
	data := valid[2:]
	wrap := func(b []byte, what string) ([]byte, string, bool) {
		return append(append([]byte{}, pre...), b...), fmt.Sprintf("%s (attacker digests: %v)", what, pre[1] == 1), true
	}
	binOp := op
	binOp.K = BinKinds[op.V%len(BinKinds)]
	switch op.K {
	case "raw":
		m, what, ok := MutateBytes(data, binOp)
		if !ok {
			return valid, "", false
		}
		return wrap(m, "compressed stream: "+what)
	case "entry", "frame", "hugeentry":
		es := chunkEntries(data)
		if len(es) == 0 {
			return valid, "", false
		}
		i := op.N % len(es)
		var plain []byte
		what := ""
		for j, e := range es {
			item := cborBytes(e)
			if j == i {
				switch op.K {
				case "entry":
					m, w, ok := MutateBytes(e, binOp)
					if !ok {
						return valid, "", false
					}
					item, what = cborBytes(m), fmt.Sprintf("entry %d: %s", i, w)
				case "frame":
					cop := op
					cop.K = []string{"len", "huge", "indef", "trunc", "type", "tag", "trail", "width", "null", "simple", "depth"}[op.V%11]
					m, w, ok := MutateCBOR(item, cop)
					if !ok {
						return valid, "", false
					}
					item, what = m, fmt.Sprintf("entry %d framing: %s", i, w)
				case "hugeentry":
					n := []uint64{1 << 20, 1 << 26, 1<<32 - 1, 1 << 40, 1<<63 - 1}[op.V%5]
					item, what = append(head(2, n, 0), e...), fmt.Sprintf("entry %d declares %d bytes", i, n)
				}
			}
			plain = append(plain, item...)
		}
		if op.Seed&2 != 0 {
			return wrap(snappyFragmented(plain, 1+op.Sel%9), what+", stream fragmented")
		}
		return wrap(snappyStream(plain), what)
	case "frag":
		var plain []byte
		es := chunkEntries(data)
		if len(es) == 0 {
			return valid, "", false
		}
		for _, e := range es {
			plain = append(plain, cborBytes(e)...)
		}
		n := []int{1, 2, 3, 7, 64}[op.V%5]
		return wrap(snappyFragmented(plain, n), fmt.Sprintf("stream re-framed into %d-byte snappy chunks", n))
	case "trickle":
		// One entry that declares more than the stream holds, the stream cut into single-byte
		// snappy chunks: the decoder has to come back for more data once per byte.
		n := []int{3000, 20000, 60000}[op.V%3]
		plain := append(head(2, uint64(n)+1, 0), bytes.Repeat([]byte{0x5a}, n)...)
		return wrap(snappyFragmented(plain, 1), fmt.Sprintf("one entry declaring %d bytes delivered as %d single-byte snappy chunks", n+1, n))
	case "deep":
		var plain []byte
		for _, e := range deepProofEntries(MutOp{V: op.V, N: 0}) {
			plain = append(plain, cborBytes(e)...)
		}
		return wrap(snappyStream(plain), fmt.Sprintf("deep proof: %d nested internal nodes", deepLevels(op)))
	}
	return valid, "", false
}

// ---------------------------------------------------------------------------------------------
// Roothash: executor commitments, proposals, evidence.

func (c *Corpus) buildRoothash() {
	nodeSigner := memorySigner.NewTestSigner("verif/c16/compute-node")
	sched := memorySigner.NewTestSigner("verif/c16/scheduler-node")
	rak := memorySigner.NewTestSigner("verif/c16/rak")
	h := func(s string) hash.Hash { return hash.NewFromBytes([]byte(s)) }
	hp := func(s string) *hash.Hash { x := h(s); return &x }
	to := staking.NewAddress(sched.Public())
	msgs := []message.Message{
		{Staking: &message.StakingMessage{Versioned: cbor.NewVersioned(0), Transfer: &staking.Transfer{To: to, Amount: *quantity.NewFromUint64(5)}}},
		{Staking: &message.StakingMessage{Versioned: cbor.NewVersioned(0), AddEscrow: &staking.Escrow{Account: to, Amount: *quantity.NewFromUint64(7)}}},
		{Governance: &message.GovernanceMessage{Versioned: cbor.NewVersioned(0), CastVote: &governance.ProposalVote{ID: 3, Vote: governance.VoteYes}}},
	}
	mk := func(failure commitment.ExecutorCommitmentFailure, withMsgs, withRAK bool, io string) commitment.ExecutorCommitment {
		ec := commitment.ExecutorCommitment{NodeID: nodeSigner.Public(), Header: commitment.ExecutorCommitmentHeader{
			SchedulerID: sched.Public(),
			Header:      commitment.ComputeResultsHeader{Round: 42, PreviousHash: h("prev"), IORoot: hp(io), StateRoot: hp("state"), MessagesHash: hp("msgs"), InMessagesHash: hp("inmsgs"), InMessagesCount: 2},
		}}
		if withMsgs {
			ec.Messages = msgs
			mh := message.MessagesHash(msgs)
			ec.Header.Header.MessagesHash = &mh
		}
		if withRAK {
			sig, err := signature.SignRaw(rak, commitment.ComputeResultsHeaderSignatureContext, cbor.Marshal(ec.Header.Header))
			must(err, "RAK sign")
			ec.Header.RAKSignature = sig
		}
		if failure != commitment.FailureNone {
			ec.Header.SetFailure(failure)
		}
		must(ec.Sign(nodeSigner, c.rtID), "commitment sign")
		return ec
	}
	ecs := []commitment.ExecutorCommitment{mk(commitment.FailureNone, true, true, "io"), mk(commitment.FailureNone, false, false, "io"), mk(commitment.FailureUnknown, false, false, "io")}
	var valid [][]byte
	for i := range ecs {
		valid = append(valid, cbor.Marshal(&ecs[i]))
	}
	c.add(&Target{Name: "roothash.commitment", Family: "cbor", Valid: valid, Unders: []string{"header", "messages"}, Call: func(_ *Env, b []byte) bool {
		var ec commitment.ExecutorCommitment
		if err := cbor.Unmarshal(b, &ec); err != nil {
			return false
		}
		_ = ec.ValidateBasic()
		_ = ec.Verify(c.rtID)
		_ = ec.ToVote()
		_ = ec.ToDDResult()
		_ = ec.IsIndicatingFailure()
		_ = ec.MostlyEqual(&ecs[1])
		_ = ec.Header.MostlyEqual(&ecs[0].Header)
		_ = ec.Header.VerifyRAK(rak.Public())
		_ = message.MessagesHash(ec.Messages)
		_ = cbor.Marshal(&ec)
		return true
	}})

	mkProp := func(batch int) commitment.Proposal {
		p := commitment.Proposal{NodeID: sched.Public(), Header: commitment.ProposalHeader{Round: 42, PreviousHash: h("prev"), BatchHash: h("batch")}}
		for i := 0; i < batch; i++ {
			p.Batch = append(p.Batch, h(fmt.Sprint("tx", i)))
		}
		must(p.Sign(sched, c.rtID), "proposal sign")
		return p
	}
	p0, p1 := mkProp(0), mkProp(5)
	c.add(&Target{Name: "roothash.proposal", Family: "cbor", Valid: [][]byte{cbor.Marshal(&p0), cbor.Marshal(&p1)}, Kinds: append(append([]string{}, CBORKinds...), "overlimit"), Mutate: func(valid []byte, op MutOp) ([]byte, string, bool) {
		if op.K != "overlimit" {
			return MutateCBOR(valid, op)
		}
		// A complete array just above the element limit of the untrusted decoding options in the
		// place of the batch (hashes of 32 bytes each): the whole input is about 10 MB.
		root, err := ParseCBOR(cbor.Marshal(&p1))
		if err != nil {
			return valid, "", false
		}
		const n = 10_000_001
		done := false
		root.walk(func(x, p *Item, i int) {
			if !done && p != nil && p.Major == 5 && i%2 == 1 && p.Kids[i-1].textOf() == "batch" {
				x.Raw = append(head(4, n, 0), bytes.Repeat([]byte{0x40}, n)...)
				done = true
			}
		})
		return root.Encode(), fmt.Sprintf("batch replaced by a complete array of %d empty byte strings", n), done
	}, Call: func(_ *Env, b []byte) bool {
		var p commitment.Proposal
		if err := cbor.Unmarshal(b, &p); err != nil {
			return false
		}
		_ = p.Verify(c.rtID)
		_ = p.Header.Equal(&p0.Header)
		_ = cbor.Marshal(&p)
		return true
	}})

	// Equivocation evidence and the executor-commit transaction body.
	evA, evB := mk(commitment.FailureNone, false, false, "io"), mk(commitment.FailureNone, false, false, "other-io")
	pa := mkProp(0)
	pb := commitment.Proposal{NodeID: sched.Public(), Header: commitment.ProposalHeader{Round: 42, PreviousHash: h("prev"), BatchHash: h("other")}}
	must(pb.Sign(sched, c.rtID), "proposal sign")
	evs := [][]byte{
		cbor.Marshal(&roothash.Evidence{ID: c.rtID, EquivocationExecutor: &roothash.EquivocationExecutorEvidence{CommitA: evA, CommitB: evB}}),
		cbor.Marshal(&roothash.Evidence{ID: c.rtID, EquivocationProposal: &roothash.EquivocationProposalEvidence{ProposalA: pa, ProposalB: pb}}),
	}
	c.add(&Target{Name: "roothash.evidence", Family: "cbor", Valid: evs, Unders: []string{"equivocation_executor", "equivocation_prop", "commit_a", "header"}, Call: func(_ *Env, b []byte) bool {
		var ev roothash.Evidence
		if err := cbor.Unmarshal(b, &ev); err != nil {
			return false
		}
		if ev.ValidateBasic() == nil {
			_, _ = ev.Hash()
		}
		return true
	}})
	c.add(&Target{Name: "roothash.executorcommit", Family: "cbor", Valid: [][]byte{cbor.Marshal(&roothash.ExecutorCommit{ID: c.rtID, Commits: ecs})}, Unders: []string{"commits"}, Call: func(_ *Env, b []byte) bool {
		var x roothash.ExecutorCommit
		if err := cbor.Unmarshal(b, &x); err != nil {
			return false
		}
		for i := range x.Commits {
			_ = x.Commits[i].ValidateBasic()
			_ = x.Commits[i].Verify(x.ID)
		}
		return true
	}})
}

// ---------------------------------------------------------------------------------------------
// SGX / TDX quotes and collateral, IAS reports (recorded vectors from the repository).

func (c *Corpus) buildSGX() {
	pdir := filepath.Join(repoDir(), "go/common/sgx/pcs/testdata")
	rd := func(dir, name string) []byte {
		b, err := os.ReadFile(filepath.Join(dir, name))
		must(err, "read test vector "+name)
		return b
	}
	certs := rd(pdir, "tcb_info_v3_fmspc_00606A000000_certs.pem")
	bundle := func(tcb, qe string) pcs.TCBBundle {
		var b pcs.TCBBundle
		must(json.Unmarshal(rd(pdir, tcb), &b.TCBInfo), "parse "+tcb)
		must(json.Unmarshal(rd(pdir, qe), &b.QEIdentity), "parse "+qe)
		b.Certificates = certs
		return b
	}
	tdxPolicy := &pcs.QuotePolicy{TCBValidityPeriod: 30, MinTCBEvaluationDataNumber: 12, TDX: &pcs.TdxQuotePolicy{}}
	vec := func(name, quote, tcb, qe string, ts int64, pol *pcs.QuotePolicy) {
		q := rd(pdir, quote)
		c.vectors = append(c.vectors, sgxVector{name: name, quote: q, bundle: pcs.QuoteBundle{Quote: q, TCB: bundle(tcb, qe)}, ts: time.Unix(ts, 0), policy: pol})
	}
	vec("sgx-v3", "quote_v3_ecdsa_p256_pck_chain.bin", "tcb_info_v3_fmspc_00606A000000.json", "qe_identity_v2.json", 1671497404, &pcs.QuotePolicy{TCBValidityPeriod: 30})
	vec("tdx-v4", "quote_v4_tdx_ecdsa_p256.bin", "tcb_info_v3_tdx_fmspc_C0806F000000.json", "qe_identity_v2_tdx2.json", 1725263032, tdxPolicy)
	vec("tdx-v4-ood", "quote_v4_tdx_ecdsa_p256_out_of_date.bin", "tcb_info_v3_tdx_fmspc_50806F000000.json", "qe_identity_v2_tdx.json", 1687091776, tdxPolicy)
	vec("sgx-v3-eppid", "quote_v3_ecdsa_p256_eppid.bin", "tcb_info_v3_fmspc_00606A000000.json", "qe_identity_v2.json", 1671497404, &pcs.QuotePolicy{TCBValidityPeriod: 30})
	// Sanity: the first two vectors verify (the corpus is valid).
	for _, v := range c.vectors[:2] {
		if _, err := v.bundle.Verify(v.policy, v.ts); err != nil {
			core.Harnessf("decode corpus: recorded vector %s does not verify: %v", v.name, err)
		}
	}

	var quotes [][]byte
	for i, v := range c.vectors {
		quotes = append(quotes, append([]byte{byte(i)}, v.quote...))
	}
	quotes = append(quotes, append([]byte{1}, rd(pdir, "quote_v4_tdx_ecdsa_p256_trailing.bin")...))
	c.add(&Target{Name: "pcs.quote", Family: "bin", Valid: quotes, Call: func(_ *Env, b []byte) bool {
		if len(b) < 1 {
			return false
		}
		v := c.vectors[int(b[0])%len(c.vectors)]
		raw := b[1:]
		var q pcs.Quote
		_, err := q.UnmarshalBinaryWithTrailing(raw, true)
		var q2 pcs.Quote
		_ = q2.UnmarshalBinary(raw)
		if err != nil {
			return false
		}
		_, _ = q.Verify(v.policy, v.ts, &v.bundle.TCB)
		_, _ = q.Verify(nil, v.ts, &v.bundle.TCB)
		if s := q.Signature(); s != nil {
			_ = s.AttestationKeyType()
			if es, ok := s.(*pcs.QuoteSignatureECDSA_P256); ok {
				_, _ = es.VerifyPCK(v.ts)
				_ = es.CertificationData()
			}
		}
		if h := q.Header(); h != nil {
			_ = h.Version()
			_ = h.TeeType()
			_ = h.Raw()
		}
		return true
	}, Mutate: func(valid []byte, op MutOp) ([]byte, string, bool) {
		m, what, ok := MutateBytes(valid[1:], op)
		return append([]byte{valid[0]}, m...), what, ok
	}})

	var bundles [][]byte
	for i, v := range c.vectors {
		bundles = append(bundles, append([]byte{byte(i)}, cbor.Marshal(&v.bundle)...))
	}
	keep1 := func(f func([]byte, MutOp) ([]byte, string, bool)) func([]byte, MutOp) ([]byte, string, bool) {
		return func(valid []byte, op MutOp) ([]byte, string, bool) {
			m, what, ok := f(valid[1:], op)
			return append([]byte{valid[0]}, m...), what, ok
		}
	}
	c.add(&Target{Name: "pcs.bundle", Family: "cbor", Valid: bundles[:3], Unders: []string{"tcb", "tcb_info", "qe_id"}, Call: func(_ *Env, b []byte) bool {
		if len(b) < 1 {
			return false
		}
		v := c.vectors[int(b[0])%len(c.vectors)]
		var qb pcs.QuoteBundle
		if err := cbor.Unmarshal(b[1:], &qb); err != nil {
			return false
		}
		_, _ = qb.Verify(v.policy, v.ts)
		_, _ = qb.Verify(nil, v.ts)
		return true
	}, Mutate: keep1(func(valid []byte, op MutOp) ([]byte, string, bool) { return MutateCBOR(valid, op) })})

	// Collateral documents (JSON as delivered by the PCS): byte-level corruption of the text.
	var docs [][]byte
	for i, n := range []string{"tcb_info_v3_fmspc_00606A000000.json", "tcb_info_v3_tdx_fmspc_C0806F000000.json", "qe_identity_v2.json", "qe_identity_v2_tdx2.json"} {
		docs = append(docs, append([]byte{byte(i)}, rd(pdir, n)...))
	}
	c.add(&Target{Name: "pcs.collateral", Family: "bin", Valid: docs, Call: func(_ *Env, b []byte) bool {
		if len(b) < 1 {
			return false
		}
		which := int(b[0]) % 4
		v := c.vectors[which%2]
		tcb := v.bundle.TCB
		var q pcs.Quote
		if err := q.UnmarshalBinary(v.quote); err != nil {
			core.Harnessf("decode: recorded quote does not parse: %v", err)
		}
		if which < 2 {
			var d pcs.SignedTCBInfo
			if err := json.Unmarshal(b[1:], &d); err != nil {
				return false
			}
			tcb.TCBInfo = d
		} else {
			var d pcs.SignedQEIdentity
			if err := json.Unmarshal(b[1:], &d); err != nil {
				return false
			}
			tcb.QEIdentity = d
		}
		_, _ = q.Verify(v.policy, v.ts, &tcb)
		return true
	}, Mutate: keep1(MutateBytes)})

	// Node TEE capability: CBOR attestation (embedding the quote bundle) and constraints.
	rak := memorySigner.NewTestSigner("verif/c16/rak")
	nodeID := memorySigner.NewTestSigner("verif/c16/compute-node").Public()
	var mrE sgx.MrEnclave
	var mrS sgx.MrSigner
	_ = mrE.UnmarshalHex("68823bc62f409ee33a32ea270cfe45d4b19a6fb3c8570d7bc186cbe062398e8f")
	_ = mrS.UnmarshalHex("9affcfae47b848ec2caf1c49b4b283531e1cc425f93582b36806e52a43d78d1a")
	sc := node.SGXConstraints{Versioned: cbor.NewVersioned(1), Enclaves: []sgx.EnclaveIdentity{{MrEnclave: mrE, MrSigner: mrS}},
		Policy: &sgxQuote.Policy{IAS: &ias.QuotePolicy{}, PCS: &pcs.QuotePolicy{TCBValidityPeriod: 30, MinTCBEvaluationDataNumber: 12, TDX: &pcs.TdxQuotePolicy{}}}, MaxAttestationAge: 100}
	c.constraints = cbor.Marshal(sc)
	teeCfg := func() *node.TEEFeatures {
		return &node.TEEFeatures{SGX: node.TEEFeaturesSGX{PCS: true, SignedAttestations: true, DefaultMaxAttestationAge: 1200}, FreshnessProofs: true}
	}
	var atts [][]byte
	for i, v := range c.vectors[:3] {
		b := v.bundle
		sa := node.SGXAttestation{Versioned: cbor.NewVersioned(1), Quote: sgxQuote.Quote{PCS: &b}, Height: 10}
		atts = append(atts, append([]byte{byte(i)}, cbor.Marshal(sa)...))
	}
	// IAS vectors.
	idir := filepath.Join(repoDir(), "go/common/sgx/ias/testdata")
	var avrs []ias.AVRBundle
	for _, ver := range []int{4, 5} {
		avrs = append(avrs, ias.AVRBundle{Body: rd(idir, fmt.Sprintf("avr_v%d_body_sw_hardening_needed.json", ver)), Signature: rd(idir, fmt.Sprintf("avr_v%d_body_sw_hardening_needed.sig", ver)), CertificateChain: rd(idir, "avr_certificates_urlencoded.pem")})
	}
	iasTS := time.Unix(1700000000, 0)
	for i := range avrs {
		sa := node.SGXAttestation{Versioned: cbor.NewVersioned(0), Quote: sgxQuote.Quote{IAS: &avrs[i]}}
		atts = append(atts, append([]byte{byte(i)}, cbor.Marshal(sa)...))
	}
	c.add(&Target{Name: "node.captee", Family: "cbor", Valid: atts, Unders: []string{"quote", "pcs", "tcb"}, Call: func(_ *Env, b []byte) bool {
		if len(b) < 1 {
			return false
		}
		v := c.vectors[int(b[0])%3]
		var sa node.SGXAttestation
		if err := cbor.Unmarshal(b[1:], &sa); err != nil {
			return false
		}
		ct := node.CapabilityTEE{Hardware: node.TEEHardwareIntelSGX, RAK: rak.Public(), Attestation: b[1:]}
		_ = ct.Verify(teeCfg(), v.ts, 20, c.constraints, nodeID, true)
		_ = ct.Verify(teeCfg(), v.ts, 20, c.constraints, nodeID, false)
		_ = ct.Verify(nil, iasTS, 20, c.constraints, nodeID, true)
		return true
	}, Mutate: keep1(func(valid []byte, op MutOp) ([]byte, string, bool) { return MutateCBOR(valid, op) })})
	scv0 := cbor.Marshal(map[string]interface{}{"enclaves": []sgx.EnclaveIdentity{{MrEnclave: mrE, MrSigner: mrS}}, "allowed_quote_statuses": []ias.ISVEnclaveQuoteStatus{ias.QuoteOK, ias.QuoteSwHardeningNeeded}})
	c.add(&Target{Name: "node.sgxconstraints", Family: "cbor", Valid: [][]byte{c.constraints, scv0}, Call: func(_ *Env, b []byte) bool {
		var x node.SGXConstraints
		if err := cbor.Unmarshal(b, &x); err != nil {
			return false
		}
		_ = x.ValidateBasic(teeCfg(), true)
		_ = x.ValidateBasic(nil, false)
		_ = x.ContainsEnclave(sgx.EnclaveIdentity{MrEnclave: mrE, MrSigner: mrS})
		ct := node.CapabilityTEE{Hardware: node.TEEHardwareIntelSGX, RAK: rak.Public(), Attestation: atts[0][1:]}
		_ = ct.Verify(teeCfg(), c.vectors[0].ts, 20, b, nodeID, true)
		_, _ = x.MarshalCBOR()
		return true
	}})

	var avrValid [][]byte
	for i := range avrs {
		avrValid = append(avrValid, cbor.Marshal(&avrs[i]))
	}
	c.add(&Target{Name: "ias.avrbundle", Family: "cbor", Valid: avrValid, Call: func(_ *Env, b []byte) bool {
		var x ias.AVRBundle
		if err := cbor.Unmarshal(b, &x); err != nil {
			return false
		}
		_, _ = x.Open(&ias.QuotePolicy{}, ias.IntelTrustRoots, iasTS)
		ias.SetAllowDebugEnclaves()
		defer ias.UnsetAllowDebugEnclaves()
		if avr, err := x.Open(&ias.QuotePolicy{}, ias.IntelTrustRoots, iasTS); err == nil {
			_, _ = avr.Quote()
		}
		_, _ = x.Open(nil, ias.IntelTrustRoots, iasTS)
		if avr, err := ias.UnsafeDecodeAVR(x.Body); err == nil {
			_, _ = avr.Quote()
		}
		return true
	}})
	var avrBodies [][]byte
	for i := range avrs {
		avrBodies = append(avrBodies, append([]byte{byte(i)}, avrs[i].Body...))
	}
	c.add(&Target{Name: "ias.avr", Family: "bin", Valid: avrBodies, Call: func(_ *Env, b []byte) bool {
		if len(b) < 1 {
			return false
		}
		a := avrs[int(b[0])%len(avrs)]
		// The recorded reports are from debug enclaves; once with the debug switch, once without.
		_, _ = ias.UnsafeDecodeAVR(b[1:])
		ias.SetAllowDebugEnclaves()
		defer ias.UnsetAllowDebugEnclaves()
		_, _ = ias.DecodeAVR(b[1:], a.Signature, a.CertificateChain, ias.IntelTrustRoots, iasTS)
		avr, err := ias.UnsafeDecodeAVR(b[1:])
		if err != nil {
			return false
		}
		if q, err := avr.Quote(); err == nil {
			_ = q.Report.ReportData
		}
		var q ias.Quote
		_ = q.UnmarshalBinary(avr.ISVEnclaveQuoteBody)
		return true
	}, Mutate: keep1(MutateBytes)})
}

// ---------------------------------------------------------------------------------------------
// Registry: entities, multi-signed node descriptors, runtime descriptors.

type nopLookup struct {
	rts   []*registry.Runtime
	nodes []*node.Node
}

func (l *nopLookup) Runtime(_ context.Context, id common.Namespace) (*registry.Runtime, error) {
	for _, r := range l.rts {
		if r.ID.Equal(&id) {
			return r, nil
		}
	}
	return nil, registry.ErrNoSuchRuntime
}
func (l *nopLookup) SuspendedRuntime(context.Context, common.Namespace) (*registry.Runtime, error) {
	return nil, registry.ErrNoSuchRuntime
}
func (l *nopLookup) AnyRuntime(ctx context.Context, id common.Namespace) (*registry.Runtime, error) {
	return l.Runtime(ctx, id)
}
func (l *nopLookup) AllRuntimes(context.Context) ([]*registry.Runtime, error) { return l.rts, nil }
func (l *nopLookup) Runtimes(context.Context) ([]*registry.Runtime, error)    { return l.rts, nil }
func (l *nopLookup) NodeBySubKey(_ context.Context, key signature.PublicKey) (*node.Node, error) {
	for _, n := range l.nodes {
		if n.Consensus.ID.Equal(key) || n.P2P.ID.Equal(key) || n.TLS.PubKey.Equal(key) {
			return n, nil
		}
	}
	return nil, registry.ErrNoSuchNode
}
func (l *nopLookup) Nodes(context.Context) ([]*node.Node, error) { return l.nodes, nil }
func (l *nopLookup) GetEntityNodes(context.Context, signature.PublicKey) ([]*node.Node, error) {
	return l.nodes, nil
}

func (c *Corpus) buildRegistry() {
	ctx := context.Background()
	c.entSigner = memorySigner.NewTestSigner("verif/c16/entity")
	names := []string{"node", "p2p", "consensus", "vrf", "tls"}
	for _, n := range names {
		c.nodeSigners = append(c.nodeSigners, memorySigner.NewTestSigner("verif/c16/compute-node/"+n))
	}
	// The node identity key is the commitment signer of buildRoothash.
	c.nodeSigners[0] = memorySigner.NewTestSigner("verif/c16/compute-node")
	c.regParams = &registry.ConsensusParameters{
		DebugAllowUnroutableAddresses: true, DebugAllowTestRuntimes: true, DebugDeployImmediately: true,
		MaxNodeExpiration: 1000, MaxRuntimeDeployments: 5,
		EnableRuntimeGovernanceModels: map[registry.RuntimeGovernanceModel]bool{registry.GovernanceEntity: true, registry.GovernanceRuntime: true},
		TEEFeatures:                   &node.TEEFeatures{SGX: node.TEEFeaturesSGX{PCS: true, SignedAttestations: true, DefaultMaxAttestationAge: 1200}, FreshnessProofs: true},
	}
	c.ent = &entity.Entity{Versioned: cbor.NewVersioned(entity.LatestDescriptorVersion), ID: c.entSigner.Public(), Nodes: []signature.PublicKey{c.nodeSigners[0].Public()}}

	// Runtimes: a plain compute runtime and an SGX one whose deployment carries the constraints.
	plain := &registry.Runtime{
		Versioned: cbor.NewVersioned(registry.LatestRuntimeDescriptorVersion), ID: c.rtID, EntityID: c.ent.ID, Kind: registry.KindCompute, TEEHardware: node.TEEHardwareInvalid,
		Executor:        registry.ExecutorParameters{GroupSize: 2, GroupBackupSize: 1, AllowedStragglers: 0, RoundTimeout: 5, MaxMessages: 32, MinLiveRoundsPercent: 90, MaxLivenessFailures: 4, MinLiveRoundsForEvaluation: 10},
		TxnScheduler:    registry.TxnSchedulerParameters{BatchFlushTimeout: time.Second, MaxBatchSize: 10, MaxBatchSizeBytes: 1024, ProposerTimeout: 2 * time.Second, MaxInMessages: 8},
		Storage:         registry.StorageParameters{CheckpointInterval: 100, CheckpointNumKept: 2, CheckpointChunkSize: 8 << 20},
		AdmissionPolicy: registry.RuntimeAdmissionPolicy{EntityWhitelist: &registry.EntityWhitelistRuntimeAdmissionPolicy{Entities: map[signature.PublicKey]registry.EntityWhitelistConfig{c.ent.ID: {MaxNodes: map[node.RolesMask]uint16{node.RoleComputeWorker: 3}}}}},
		Constraints: map[scheduler.CommitteeKind]map[scheduler.Role]registry.SchedulingConstraints{scheduler.KindComputeExecutor: {
			scheduler.RoleWorker:       {MinPoolSize: &registry.MinPoolSizeConstraint{Limit: 2}, MaxNodes: &registry.MaxNodesConstraint{Limit: 4}},
			scheduler.RoleBackupWorker: {MinPoolSize: &registry.MinPoolSizeConstraint{Limit: 1}, ValidatorSet: &registry.ValidatorSetConstraint{}},
		}},
		Staking: registry.RuntimeStakingParameters{
			Thresholds:                           map[staking.ThresholdKind]quantity.Quantity{staking.KindNodeCompute: *quantity.NewFromUint64(100)},
			Slashing:                             map[staking.SlashReason]staking.Slash{staking.SlashRuntimeEquivocation: {Amount: *quantity.NewFromUint64(10)}},
			RewardSlashEquvocationRuntimePercent: 50, MinInMessageFee: *quantity.NewFromUint64(1),
		},
		GovernanceModel: registry.GovernanceEntity,
		Deployments:     []*registry.VersionInfo{{Version: version.Version{Major: 0, Minor: 1}, ValidFrom: 0}, {Version: version.Version{Major: 0, Minor: 2}, ValidFrom: 20, BundleChecksum: bytes.Repeat([]byte{7}, 32)}},
	}
	plain.Genesis.StateRoot.Empty()
	sgxRT := &registry.Runtime{}
	must(cbor.Unmarshal(cbor.Marshal(plain), sgxRT), "clone runtime")
	sgxRT.ID = common.NewTestNamespaceFromSeed([]byte("verif/c16/runtime-sgx"), common.NamespaceTest)
	sgxRT.TEEHardware = node.TEEHardwareIntelSGX
	sgxRT.AdmissionPolicy = registry.RuntimeAdmissionPolicy{AnyNode: &registry.AnyNodeRuntimeAdmissionPolicy{}}
	sgxRT.Deployments = []*registry.VersionInfo{{Version: version.Version{Major: 0, Minor: 1}, ValidFrom: 0, TEE: c.constraints}}
	c.runtimes = []*registry.Runtime{plain, sgxRT}
	c.sgxRuntime = sgxRT
	lookup := &nopLookup{rts: c.runtimes}

	rtValid := [][]byte{cbor.Marshal(plain), cbor.Marshal(sgxRT)}
	if fb := FilledEncoding(registry.Runtime{}, 1); fb != nil {
		rtValid = append(rtValid, fb)
	}
	c.add(&Target{Name: "registry.runtime", Family: "cbor", Valid: rtValid, Unders: []string{"deployments", "admission_policy", "constraints", "staking", "executor"}, Call: func(_ *Env, b []byte) bool {
		var rt registry.Runtime
		if err := cbor.Unmarshal(b, &rt); err != nil {
			return false
		}
		// The order of the registry application (RegisterRuntime): every later step runs only on
		// a descriptor that passed the earlier ones.
		_ = rt.ValidateBasic(true)
		_ = rt.ValidateBasic(false)
		_ = registry.VerifyRuntime(c.regParams, c.logger, &rt, 10, registry.VerifyRuntimeOptions{IsGenesis: true})
		if err := registry.VerifyRuntime(c.regParams, c.logger, &rt, 10, registry.VerifyRuntimeOptions{IsFeatureVersion261: true}); err == nil {
			if rt.Kind == registry.KindCompute {
				_ = registry.VerifyRegisterComputeRuntimeArgs(ctx, c.logger, &rt, lookup)
			}
			_ = registry.VerifyRuntimeNew(c.logger, &rt, 10, c.regParams, false)
			_ = registry.VerifyRuntimeUpdate(c.logger, plain, &rt, 10, c.regParams, true)
			_ = rt.ActiveDeployment(10)
			_ = rt.NextDeployment(10)
			_, _ = rt.StakingAddress()
			_ = rt.IsCompute()
		}
		_ = cbor.Marshal(&rt)
		return true
	}})

	// Entities.
	se, err := entity.SignEntity(c.entSigner, registry.RegisterEntitySignatureContext, c.ent)
	must(err, "sign entity")
	openEntity := func(b []byte) bool {
		var s entity.SignedEntity
		if err := cbor.Unmarshal(b, &s); err != nil {
			return false
		}
		var e entity.Entity
		if err := s.Open(registry.RegisterEntitySignatureContext, &e); err == nil {
			_ = e.ValidateBasic(true)
			_ = e.ValidateBasic(false)
		}
		_, _ = registry.VerifyRegisterEntityArgs(c.logger, &s, false, false)
		_, _ = registry.VerifyRegisterEntityArgs(c.logger, &s, true, true)
		return true
	}
	c.add(&Target{Name: "entity.signed", Family: "cbor", Valid: [][]byte{cbor.Marshal(se)}, Call: func(_ *Env, b []byte) bool { return openEntity(b) }})
	// The inner descriptor, corrupted and then signed by the owner (reaches decode and validation).
	c.add(&Target{Name: "entity.descriptor", Family: "cbor", Valid: [][]byte{cbor.Marshal(c.ent)}, Call: func(_ *Env, b []byte) bool {
		sig, err := signature.Sign(c.entSigner, registry.RegisterEntitySignatureContext, b)
		must(err, "sign")
		openEntity(cbor.Marshal(&entity.SignedEntity{Signed: signature.Signed{Blob: b, Signature: *sig}}))
		var e entity.Entity
		return cbor.Unmarshal(b, &e) == nil
	}})

	// Nodes: a validator and an SGX compute node whose TEE capability carries a recorded quote.
	var addr node.Address
	_ = addr.FromIP(net.ParseIP("127.0.0.1"), 9000)
	mkNode := func(roles node.RolesMask, rts []*node.Runtime) *node.Node {
		return &node.Node{
			Versioned: cbor.NewVersioned(node.LatestNodeDescriptorVersion), ID: c.nodeSigners[0].Public(), EntityID: c.ent.ID, Expiration: 20,
			P2P:       node.P2PInfo{ID: c.nodeSigners[1].Public(), Addresses: []node.Address{addr}},
			Consensus: node.ConsensusInfo{ID: c.nodeSigners[2].Public(), Addresses: []node.ConsensusAddress{{ID: c.nodeSigners[2].Public(), Address: addr}}},
			VRF:       node.VRFInfo{ID: c.nodeSigners[3].Public()}, TLS: node.TLSInfo{PubKey: c.nodeSigners[4].Public()},
			Runtimes: rts, Roles: roles, SoftwareVersion: node.SoftwareVersion(version.SoftwareVersion),
		}
	}
	sa := node.SGXAttestation{Versioned: cbor.NewVersioned(1), Quote: sgxQuote.Quote{PCS: &c.vectors[0].bundle}, Height: 10}
	rak := memorySigner.NewTestSigner("verif/c16/rak")
	sgxNode := mkNode(node.RoleComputeWorker, []*node.Runtime{
		{ID: sgxRT.ID, Version: version.Version{Major: 0, Minor: 1}, Capabilities: node.Capabilities{TEE: &node.CapabilityTEE{Hardware: node.TEEHardwareIntelSGX, RAK: rak.Public(), Attestation: cbor.Marshal(sa)}}, ExtraInfo: []byte("extra")},
		{ID: c.rtID, Version: version.Version{Major: 0, Minor: 1}},
	})
	descs := []*node.Node{mkNode(node.RoleValidator, nil), sgxNode}
	verifyNode := func(b []byte) bool {
		var sn node.MultiSignedNode
		if err := cbor.Unmarshal(b, &sn); err != nil {
			return false
		}
		var n node.Node
		if err := sn.Open(registry.RegisterNodeSignatureContext, &n); err == nil {
			_ = n.ValidateBasic(true)
			_ = n.ValidateBasic(false)
			for _, rt := range n.Runtimes {
				if rt != nil && rt.Capabilities.TEE != nil {
					_ = rt.Capabilities.TEE.Verify(c.regParams.TEEFeatures, c.vectors[0].ts, 20, c.constraints, n.ID, true)
				}
			}
			_ = n.HasRoles(node.RoleValidator)
			_ = n.IsExpired(30)
			_ = cbor.Marshal(&n)
		}
		_, _, _ = registry.VerifyRegisterNodeArgs(ctx, c.regParams, c.logger, &sn, c.ent, c.vectors[0].ts, 20, false, false, 10, lookup, lookup, true)
		_, _, _ = registry.VerifyRegisterNodeArgs(ctx, c.regParams, c.logger, &sn, c.ent, c.vectors[0].ts, 20, true, true, 10, lookup, lookup, false)
		return true
	}
	var snValid, descValid [][]byte
	for _, d := range descs {
		sn, err := node.MultiSignNode(c.nodeSigners, registry.RegisterNodeSignatureContext, d)
		must(err, "multisign node")
		snValid = append(snValid, cbor.Marshal(sn))
		descValid = append(descValid, cbor.Marshal(d))
	}
	c.add(&Target{Name: "node.multisigned", Family: "cbor", Valid: snValid, Unders: []string{"signatures", "untrusted_raw_value"}, Call: func(_ *Env, b []byte) bool { return verifyNode(b) }})
	c.add(&Target{Name: "node.descriptor", Family: "cbor", Valid: descValid, Unders: []string{"runtimes", "capabilities", "consensus", "p2p", "tls"}, Call: func(_ *Env, b []byte) bool {
		ms := signature.MultiSigned{Blob: b}
		for _, s := range c.nodeSigners {
			sig, err := signature.Sign(s, registry.RegisterNodeSignatureContext, b)
			must(err, "sign")
			ms.Signatures = append(ms.Signatures, *sig)
		}
		verifyNode(cbor.Marshal(&node.MultiSignedNode{MultiSigned: ms}))
		var n node.Node
		return cbor.Unmarshal(b, &n) == nil
	}})
}

// ---------------------------------------------------------------------------------------------
// Consensus transactions: envelope, signed inner transaction, method bodies of every method.

func (c *Corpus) buildTransactions() {
	signer := memorySigner.NewTestSigner("verif/c16/tx-signer")
	fee := &transaction.Fee{Amount: *quantity.NewFromUint64(10), Gas: 1000}
	to := staking.NewAddress(c.entSigner.Public())
	txs := []*transaction.Transaction{
		staking.NewTransferTx(3, fee, &staking.Transfer{To: to, Amount: *quantity.NewFromUint64(100)}),
		staking.NewAmendCommissionScheduleTx(4, fee, &staking.AmendCommissionSchedule{Amendment: staking.CommissionSchedule{
			Rates:  []staking.CommissionRateStep{{Start: 3, Rate: *quantity.NewFromUint64(1000)}},
			Bounds: []staking.CommissionRateBoundStep{{Start: 3, RateMin: *quantity.NewFromUint64(0), RateMax: *quantity.NewFromUint64(100_000)}},
		}}),
		registry.NewRegisterRuntimeTx(5, nil, c.runtimes[0]),
		registry.NewDeregisterEntityTx(6, fee),
	}
	decodeBody := func(tx *transaction.Transaction) {
		bt := tx.Method.BodyType()
		if bt == nil {
			return
		}
		p := reflect.New(reflect.TypeOf(bt))
		if err := cbor.Unmarshal(tx.Body, p.Interface()); err == nil {
			CallValidators(p.Interface())
		}
	}
	openTx := func(b []byte) bool {
		var st transaction.SignedTransaction
		if err := cbor.Unmarshal(b, &st); err != nil {
			return false
		}
		var tx transaction.Transaction
		if err := st.Open(&tx); err == nil {
			if tx.SanityCheck() == nil {
				decodeBody(&tx)
				_ = tx.Method.IsCritical()
				if tx.Fee != nil {
					_ = tx.Fee.GasPrice()
				}
			}
		}
		_ = st.Hash()
		_, _, _ = transaction.OpenRawTransactions([][]byte{b})
		return true
	}
	var env, inner [][]byte
	for _, tx := range txs {
		st, err := transaction.Sign(signer, tx)
		must(err, "sign tx")
		env = append(env, cbor.Marshal(st))
		inner = append(inner, cbor.Marshal(tx))
	}
	c.add(&Target{Name: "tx.envelope", Family: "cbor", Valid: env, Unders: []string{"signature", "untrusted_raw_value"}, Call: func(_ *Env, b []byte) bool { return openTx(b) }})
	c.add(&Target{Name: "tx.signed-inner", Family: "cbor", Valid: inner, Unders: []string{"body", "fee", "method"}, Call: func(_ *Env, b []byte) bool {
		sig, err := signature.Sign(signer, transaction.SignatureContext, b)
		must(err, "sign")
		openTx(cbor.Marshal(&transaction.SignedTransaction{Signed: signature.Signed{Blob: b, Signature: *sig}}))
		var tx transaction.Transaction
		return cbor.Unmarshal(b, &tx) == nil
	}})
	// Method bodies of every method: a fully occupied instance of the registered body type.
	var bodies [][]byte
	var bodyMethods []transaction.MethodName
	for i, m := range AllMethods() {
		bt := m.BodyType()
		if bt == nil {
			continue
		}
		b := FilledEncoding(bt, uint64(i)+1)
		if b == nil {
			b = cbor.Marshal(reflect.New(reflect.TypeOf(bt)).Interface())
		}
		bodyMethods = append(bodyMethods, m)
		bodies = append(bodies, append([]byte{byte(len(bodyMethods) - 1)}, b...))
	}
	c.add(&Target{Name: "tx.body", Family: "cbor", Valid: bodies, Call: func(_ *Env, b []byte) bool {
		if len(b) < 1 {
			return false
		}
		m := bodyMethods[int(b[0])%len(bodyMethods)]
		p := reflect.New(reflect.TypeOf(m.BodyType()))
		if err := cbor.Unmarshal(b[1:], p.Interface()); err != nil {
			return false
		}
		CallValidators(p.Interface())
		_ = cbor.Marshal(p.Interface())
		return true
	}, Mutate: func(valid []byte, op MutOp) ([]byte, string, bool) {
		m, what, ok := MutateCBOR(valid[1:], op)
		return append([]byte{valid[0]}, m...), what, ok
	}})
}
