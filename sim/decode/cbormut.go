// Package decode holds the engines of property C16 that do not need a running chain: seeded
// STRUCTURED corruption of valid encodings presented at the exported decode and verify entry
// points (DecoderEngine), and the runtime host protocol connection driven by a simulated peer over
// an in-memory duplex with a simulated deadline clock (StreamEngine). It also exports the shared
// corruption operators (MutateCBOR, MutateBytes), which the live-multiplexer part of C16 (package
// chain) applies to signed transactions of a running simulation.
//
// What is NOT claimed: coverage-guided fuzzing over all byte strings. Every input is a seeded
// structured corruption of a valid encoding built at run time (or of a recorded SGX/TDX vector).
package decode

import (
	"bytes"
	"encoding/binary"
	"fmt"
	"math"

	"verif/sim/core"
)

// Item is a node of the CBOR data-item tree of a valid encoding. Byte strings whose content is
// itself a complete CBOR map or array (signed blobs, embedded attestations) are parsed through
// (Embedded), so that a corruption inside them keeps the enclosing byte string consistent.
type Item struct {
	Major    byte
	Info     byte   // additional information of the original header
	Arg      uint64 // argument (value, length, count, tag number, simple/float bits)
	Payload  []byte // definite strings that are not embedded
	Kids     []*Item
	Embedded bool
	Indef    bool

	// Overrides used by the corruption operators.
	Raw     []byte // emit these bytes instead of the whole item
	Hdr     []byte // emit this header instead of the computed one
	NoBreak bool   // indefinite container without its break byte
}

const maxParseDepth = 64

// ParseCBOR parses exactly one well-formed data item that spans all of data.
func ParseCBOR(data []byte) (*Item, error) {
	it, off, err := parseItem(data, 0, 0)
	if err != nil {
		return nil, err
	}
	if off != len(data) {
		return nil, fmt.Errorf("cbor: %d trailing bytes", len(data)-off)
	}
	return it, nil
}

func parseItem(d []byte, off, depth int) (*Item, int, error) {
	if depth > maxParseDepth {
		return nil, 0, fmt.Errorf("cbor: too deep")
	}
	if off >= len(d) {
		return nil, 0, fmt.Errorf("cbor: unexpected end")
	}
	b := d[off]
	it := &Item{Major: b >> 5, Info: b & 0x1f}
	off++
	switch {
	case it.Info < 24:
		it.Arg = uint64(it.Info)
	case it.Info <= 27:
		n := 1 << (it.Info - 24)
		if off+n > len(d) {
			return nil, 0, fmt.Errorf("cbor: short argument")
		}
		for i := 0; i < n; i++ {
			it.Arg = it.Arg<<8 | uint64(d[off+i])
		}
		off += n
	case it.Info == 31:
		if it.Major < 2 || it.Major > 5 {
			return nil, 0, fmt.Errorf("cbor: bad indefinite")
		}
		it.Indef = true
	default:
		return nil, 0, fmt.Errorf("cbor: reserved additional information")
	}
	switch it.Major {
	case 0, 1, 7:
		return it, off, nil
	case 2, 3:
		if it.Indef {
			for {
				if off >= len(d) {
					return nil, 0, fmt.Errorf("cbor: unterminated indefinite string")
				}
				if d[off] == 0xff {
					return it, off + 1, nil
				}
				k, o, err := parseItem(d, off, depth+1)
				if err != nil {
					return nil, 0, err
				}
				it.Kids = append(it.Kids, k)
				off = o
			}
		}
		if it.Arg > uint64(len(d)-off) {
			return nil, 0, fmt.Errorf("cbor: short string")
		}
		it.Payload = d[off : off+int(it.Arg)]
		off += int(it.Arg)
		if it.Major == 2 && len(it.Payload) >= 2 && (it.Payload[0]>>5 == 5 || it.Payload[0]>>5 == 4) {
			if k, o, err := parseItem(it.Payload, 0, depth+1); err == nil && o == len(it.Payload) {
				it.Embedded = true
				it.Kids = []*Item{k}
			}
		}
		return it, off, nil
	case 4, 5:
		n := it.Arg
		if it.Major == 5 {
			n *= 2
		}
		for i := uint64(0); it.Indef || i < n; i++ {
			if off >= len(d) {
				return nil, 0, fmt.Errorf("cbor: short container")
			}
			if it.Indef && d[off] == 0xff {
				off++
				break
			}
			k, o, err := parseItem(d, off, depth+1)
			if err != nil {
				return nil, 0, err
			}
			it.Kids = append(it.Kids, k)
			off = o
		}
		return it, off, nil
	default: // 6
		k, o, err := parseItem(d, off, depth+1)
		if err != nil {
			return nil, 0, err
		}
		it.Kids = []*Item{k}
		return it, o, nil
	}
}

// head encodes a header with the given argument, keeping the width of the original header when
// the argument fits in it (so that an untouched item re-encodes to its original bytes).
func head(major byte, arg uint64, info byte) []byte {
	w := 0 // bytes of argument
	switch {
	case arg < 24:
		w = 0
	case arg <= math.MaxUint8:
		w = 1
	case arg <= math.MaxUint16:
		w = 2
	case arg <= math.MaxUint32:
		w = 4
	default:
		w = 8
	}
	if info >= 24 && info <= 27 {
		if ow := 1 << (info - 24); ow > w {
			w = ow
		}
	}
	return headW(major, arg, w)
}

// headW encodes a header with an explicit argument width (0 = in the initial byte).
func headW(major byte, arg uint64, w int) []byte {
	switch w {
	case 0:
		return []byte{major<<5 | byte(arg&0x1f)}
	case 1:
		return []byte{major<<5 | 24, byte(arg)}
	case 2:
		return []byte{major<<5 | 25, byte(arg >> 8), byte(arg)}
	case 4:
		return []byte{major<<5 | 26, byte(arg >> 24), byte(arg >> 16), byte(arg >> 8), byte(arg)}
	default:
		var b [9]byte
		b[0] = major<<5 | 27
		binary.BigEndian.PutUint64(b[1:], arg)
		return b[:]
	}
}

// Encode serialises the tree (with overrides).
func (it *Item) Encode() []byte {
	var buf bytes.Buffer
	it.encode(&buf)
	return buf.Bytes()
}

func (it *Item) encode(buf *bytes.Buffer) {
	if it.Raw != nil {
		buf.Write(it.Raw)
		return
	}
	hdr := func(arg uint64) {
		switch {
		case it.Hdr != nil:
			buf.Write(it.Hdr)
		case it.Indef:
			buf.WriteByte(it.Major<<5 | 31)
		default:
			buf.Write(head(it.Major, arg, it.Info))
		}
	}
	kids := func() {
		for _, k := range it.Kids {
			k.encode(buf)
		}
		if it.Indef && !it.NoBreak {
			buf.WriteByte(0xff)
		}
	}
	switch it.Major {
	case 0, 1:
		hdr(it.Arg)
	case 7:
		if it.Hdr != nil {
			buf.Write(it.Hdr)
		} else if it.Info < 24 {
			buf.WriteByte(7<<5 | it.Info)
		} else {
			buf.Write(headW(7, it.Arg, 1<<(it.Info-24)))
		}
	case 2, 3:
		switch {
		case it.Indef:
			hdr(0)
			kids()
		case it.Embedded:
			var inner bytes.Buffer
			it.Kids[0].encode(&inner)
			hdr(uint64(inner.Len()))
			buf.Write(inner.Bytes())
		default:
			hdr(uint64(len(it.Payload)))
			buf.Write(it.Payload)
		}
	case 4:
		hdr(uint64(len(it.Kids)))
		kids()
	case 5:
		hdr(uint64(len(it.Kids) / 2))
		kids()
	case 6:
		hdr(it.Arg)
		kids()
	}
}

// walk visits all items in pre-order.
func (it *Item) walk(f func(x, parent *Item, idx int)) {
	var rec func(x, p *Item, i int)
	rec = func(x, p *Item, i int) {
		f(x, p, i)
		for j, k := range x.Kids {
			rec(k, x, j)
		}
	}
	rec(it, nil, 0)
}

// textOf returns the text of a text-string item ("" otherwise).
func (it *Item) textOf() string {
	if it.Major == 3 && !it.Indef {
		return string(it.Payload)
	}
	return ""
}

// MutOp is one structured corruption. It is a pure function of (bytes, op).
type MutOp struct {
	K string `json:"k"`
	// Sel selects the item (modulo the number of applicable items).
	Sel int `json:"s,omitempty"`
	// V selects the variant of the operator, N a size parameter.
	V int `json:"v,omitempty"`
	N int `json:"n,omitempty"`
	// Under restricts the choice to the value of the first map entry with this text key.
	Under string `json:"u,omitempty"`
	// Seed feeds operator-internal choices (filler bytes).
	Seed uint64 `json:"r,omitempty"`
}

// CBORKinds lists the structured corruption operators for CBOR encodings.
var CBORKinds = []string{"len", "indef", "depth", "dupkey", "reorder", "huge", "trunc", "type", "tag", "trail", "float", "width", "negint", "keytype", "null", "drop", "splice", "bigblob", "utf8", "simple"}

// BinKinds lists the byte-level operators for the hand-written binary formats.
var BinKinds = []string{"flip", "set", "trunc", "extend", "insert", "delete", "dup", "u16", "u32", "zero", "swap", "repeat", "lenfield"}

// GenMutOp draws a corruption operator of the given family ("cbor" | "bin").
func GenMutOp(r *core.Rand, family string) MutOp {
	kinds := CBORKinds
	if family == "bin" {
		kinds = BinKinds
	}
	return MutOp{K: kinds[r.Intn(len(kinds))], Sel: r.Intn(1 << 20), V: r.Intn(1 << 16), N: r.Intn(1 << 16), Seed: r.Uint64()}
}

var hugeSizes = []uint64{1 << 16, 1 << 20, 10_000_000, 10_000_001, 1<<31 - 1, 1 << 31, 1<<32 - 1, 1 << 32, 1 << 62, 1<<63 - 1, 1 << 63, math.MaxUint64}

var depthSizes = []int{2, 8, 15, 16, 17, 31, 32, 33, 64, 127, 128, 129, 256, 1024, 5000, 16000}

// MaxMutantSize bounds the size of a generated mutant (depth bombs and big blobs are clipped).
const MaxMutantSize = 30 * 1024

// MutateCBOR applies a structured corruption to a valid CBOR encoding. It returns the mutant
// and a short description of what was done; applied is false when the operator has no
// applicable item in this encoding (the input is returned unchanged).
func MutateCBOR(valid []byte, op MutOp) (out []byte, what string, applied bool) {
	if len(valid) > 1<<20 {
		return valid, "", false // an earlier operator of the case already produced a huge input
	}
	root, err := ParseCBOR(valid)
	if err != nil {
		return valid, "unparsable-original", false
	}
	rr := core.NewRand(op.Seed ^ 0xc16)
	type ref struct {
		it, parent *Item
		idx        int
	}
	var all []ref
	scope := root
	if op.Under != "" {
		var found *Item
		root.walk(func(x, p *Item, i int) {
			if found == nil && p != nil && p.Major == 5 && i%2 == 1 && p.Kids[i-1].textOf() == op.Under {
				found = x
			}
		})
		if found != nil {
			scope = found
		}
	}
	// Parent links for the scope root are needed by operators that replace the item in place.
	parentOf := map[*Item]ref{}
	root.walk(func(x, p *Item, i int) { parentOf[x] = ref{x, p, i} })
	scope.walk(func(x, _ *Item, _ int) { all = append(all, parentOf[x]) })
	pick := func(pred func(r ref) bool) (ref, bool) {
		var c []ref
		for _, r := range all {
			if pred(r) {
				c = append(c, r)
			}
		}
		if len(c) == 0 {
			return ref{}, false
		}
		return c[op.Sel%len(c)], true
	}
	anyItem := func(ref) bool { return true }
	hasLen := func(r ref) bool { return r.it.Major >= 2 && r.it.Major <= 5 && !r.it.Indef }
	isMap := func(r ref) bool { return r.it.Major == 5 && len(r.it.Kids) >= 2 }
	isLeaf := func(r ref) bool { return len(r.it.Kids) == 0 }
	enc := func(it *Item) []byte { return it.Encode() }
	finish := func(w string) ([]byte, string, bool) {
		o := root.Encode()
		return o, w, !bytes.Equal(o, valid)
	}
	filler := func(n int) []byte { return rr.Bytes(n) }

	switch op.K {
	case "len":
		r, ok := pick(hasLen)
		if !ok {
			return valid, "", false
		}
		var cur uint64
		switch {
		case r.it.Major == 4:
			cur = uint64(len(r.it.Kids))
		case r.it.Major == 5:
			cur = uint64(len(r.it.Kids) / 2)
		case r.it.Embedded:
			cur = uint64(len(enc(r.it.Kids[0])))
		default:
			cur = uint64(len(r.it.Payload))
		}
		vals := []uint64{cur + 1, cur - 1, cur + 2, cur / 2, 0, cur + 1<<16, 1<<32 - 1, 1 << 63, math.MaxUint64, cur + 23, cur + 255}
		nv := vals[op.V%len(vals)]
		if cur == 0 && nv == math.MaxUint64 && op.V%len(vals) == 1 {
			nv = 1
		}
		r.it.Hdr = head(r.it.Major, nv, 0)
		return finish(fmt.Sprintf("len major=%d %d->%d", r.it.Major, cur, nv))
	case "indef":
		r, ok := pick(func(r ref) bool { return r.it.Major >= 2 && r.it.Major <= 5 })
		if !ok {
			return valid, "", false
		}
		it := r.it
		switch v := op.V % 5; {
		case v == 0 || v == 1: // indefinite-length form of the same content (with or without break)
			if it.Major == 2 || it.Major == 3 {
				var body []byte
				if it.Embedded {
					body = enc(it.Kids[0])
				} else {
					body = it.Payload
				}
				cut := 0
				if len(body) > 0 {
					cut = op.N % (len(body) + 1)
				}
				raw := []byte{it.Major<<5 | 31}
				raw = append(raw, head(it.Major, uint64(cut), 0)...)
				raw = append(raw, body[:cut]...)
				raw = append(raw, head(it.Major, uint64(len(body)-cut), 0)...)
				raw = append(raw, body[cut:]...)
				if v == 0 {
					raw = append(raw, 0xff)
				}
				it.Raw = raw
			} else {
				it.Indef, it.Hdr, it.NoBreak = true, nil, v == 1
			}
			return finish(fmt.Sprintf("indef major=%d break=%v", it.Major, v == 0))
		case v == 2: // a stray break inside a definite container
			it.Kids = append(it.Kids, &Item{Raw: []byte{0xff}})
			if it.Major == 2 || it.Major == 3 {
				it.Raw = append(enc(&Item{Major: it.Major, Payload: it.Payload, Info: it.Info}), 0xff)
			}
			return finish("stray-break")
		case v == 3: // indefinite string whose chunks have the wrong major type / nested indefinite chunks
			m := byte(2 + op.N%2)
			it.Raw = []byte{m<<5 | 31, (5 - m) << 5, m<<5 | 31, 0xff, 0xff}
			return finish("indef-bad-chunks")
		default: // indefinite header and nothing else
			it.Raw = []byte{it.Major<<5 | 31}
			return finish("indef-open")
		}
	case "depth":
		r, ok := pick(anyItem)
		if !ok {
			return valid, "", false
		}
		inner := enc(r.it)
		k := depthSizes[op.N%len(depthSizes)]
		style := op.V % 7
		per := []int{1, 3, 1, 2, 1, 1, 2}[style]
		if room := MaxMutantSize - len(valid); k*per > room {
			k = room / per
		}
		if k < 1 {
			return valid, "", false
		}
		var pre, post []byte
		for i := 0; i < k; i++ {
			switch style {
			case 0:
				pre = append(pre, 0x81)
			case 1:
				pre = append(pre, 0xa1, 0x61, 'a')
			case 2:
				pre = append(pre, 0xc1)
			case 3:
				pre = append(pre, 0xd8, 0x18) // tag 24 (encoded CBOR)
			case 4:
				pre = append(pre, 0x9f)
				post = append(post, 0xff)
			case 5: // open-ended: nothing inside, nothing after
				pre = append(pre, 0x81)
			case 6: // alternate arrays and maps
				if i%2 == 0 {
					pre = append(pre, 0x81)
				} else {
					pre = append(pre, 0xa1, 0x00)
				}
			}
		}
		if style == 5 {
			r.it.Raw = pre
		} else {
			r.it.Raw = append(append(pre, inner...), post...)
		}
		return finish(fmt.Sprintf("depth style=%d levels=%d", style, k))
	case "dupkey":
		r, ok := pick(isMap)
		if !ok {
			return valid, "", false
		}
		np := len(r.it.Kids) / 2
		i := op.V % np
		k, v := r.it.Kids[2*i], r.it.Kids[2*i+1]
		var nv *Item
		switch op.N % 3 {
		case 0:
			nv = v
		case 1:
			nv = r.it.Kids[2*((i+1)%np)+1]
		default:
			nv = &Item{Raw: []byte{0xf6}}
		}
		at := 2 * (op.N / 3 % (np + 1))
		kids := append([]*Item{}, r.it.Kids[:at]...)
		kids = append(kids, k, nv)
		r.it.Kids = append(kids, r.it.Kids[at:]...)
		return finish(fmt.Sprintf("dupkey %q", k.textOf()))
	case "reorder":
		r, ok := pick(func(r ref) bool { return r.it.Major == 5 && len(r.it.Kids) >= 4 })
		if !ok {
			return valid, "", false
		}
		np := len(r.it.Kids) / 2
		kids := append([]*Item{}, r.it.Kids...)
		if op.V%2 == 0 {
			i, j := op.N%np, (op.N/np+1+op.N%np)%np
			if i == j {
				j = (i + 1) % np
			}
			kids[2*i], kids[2*i+1], kids[2*j], kids[2*j+1] = kids[2*j], kids[2*j+1], kids[2*i], kids[2*i+1]
		} else {
			for i := 0; i < np/2; i++ {
				j := np - 1 - i
				kids[2*i], kids[2*i+1], kids[2*j], kids[2*j+1] = kids[2*j], kids[2*j+1], kids[2*i], kids[2*i+1]
			}
		}
		r.it.Kids = kids
		return finish("reorder")
	case "huge":
		size := hugeSizes[op.N%len(hugeSizes)]
		if op.V%2 == 0 {
			r, ok := pick(hasLen)
			if !ok {
				return valid, "", false
			}
			r.it.Hdr = head(r.it.Major, size, 0)
			return finish(fmt.Sprintf("huge declared major=%d size=%d body kept", r.it.Major, size))
		}
		r, ok := pick(anyItem)
		if !ok {
			return valid, "", false
		}
		m := byte(2 + op.V/2%4)
		raw := head(m, size, 0)
		switch op.V / 8 % 3 {
		case 1:
			raw = append(raw, 0x00)
		case 2:
			raw = append(raw, filler(16)...)
		}
		r.it.Raw = raw
		return finish(fmt.Sprintf("huge replaced major=%d size=%d", m, size))
	case "trunc":
		// Cut the encoding of an item (the root, an embedded blob, or any item) at an item
		// boundary of its own subtree or in the middle of an item.
		r, ok := pick(func(r ref) bool {
			return r.parent == nil || (r.parent.Embedded && r.parent.Major == 2) || op.V%4 == 3
		})
		if !ok {
			return valid, "", false
		}
		full := enc(r.it)
		if len(full) < 1 {
			return valid, "", false
		}
		// Item boundaries of the subtree, as offsets into full.
		var bounds []int
		var rec func(x *Item, off int) int
		rec = func(x *Item, off int) int {
			bounds = append(bounds, off)
			e := enc(x)
			if len(x.Kids) > 0 && !x.Indef && x.Raw == nil {
				// Children are a suffix of the encoding (definite containers, tags, embedded strings).
				inner := 0
				for _, k := range x.Kids {
					inner += len(enc(k))
				}
				o := off + len(e) - inner
				for _, k := range x.Kids {
					o = rec(k, o)
				}
			}
			return off + len(e)
		}
		rec(r.it, 0)
		cut := 0
		if op.V%2 == 0 && len(bounds) > 1 {
			cut = bounds[1+op.N%(len(bounds)-1)]
		} else {
			cut = op.N % len(full)
		}
		r.it.Raw = append([]byte{}, full[:cut]...)
		if len(r.it.Raw) == 0 && r.parent == nil {
			return []byte{}, "trunc to empty", true
		}
		if len(r.it.Raw) == 0 {
			r.it.Raw = []byte{}
			// An embedded blob cut to nothing becomes an empty byte string.
			if r.parent != nil && r.parent.Embedded {
				r.parent.Embedded, r.parent.Kids, r.parent.Payload = false, nil, []byte{}
			}
		}
		return finish(fmt.Sprintf("trunc %d of %d", cut, len(full)))
	case "type":
		r, ok := pick(anyItem)
		if !ok {
			return valid, "", false
		}
		it := r.it
		switch v := op.V % 6; v {
		case 0: // same header argument, other major type
			nm := (it.Major + 1 + byte(op.N%7)) % 8
			full := enc(it)
			if len(full) == 0 {
				return valid, "", false
			}
			full = append([]byte{}, full...)
			full[0] = nm<<5 | full[0]&0x1f
			it.Raw = full
			return finish(fmt.Sprintf("type major %d->%d (header argument kept)", it.Major, nm))
		case 1: // value re-typed: the encoding of the item as the content of a byte/text string
			full := enc(it)
			m := byte(2 + op.N%2)
			it.Raw = append(head(m, uint64(len(full)), 0), full...)
			return finish(fmt.Sprintf("type wrapped-in-major-%d", m))
		case 2: // strings <-> each other, ints <-> strings
			switch it.Major {
			case 2, 3:
				if it.Indef {
					return valid, "", false
				}
				body := it.Payload
				if it.Embedded {
					body = enc(it.Kids[0])
				}
				if op.N%2 == 0 {
					it.Raw = append(head(5-it.Major, uint64(len(body)), 0), body...)
				} else {
					it.Raw = head(0, uint64(len(body)), 0)
				}
			case 0, 1:
				var b [8]byte
				binary.BigEndian.PutUint64(b[:], it.Arg)
				it.Raw = append(head(2+byte(op.N%2), 8, 0), b[:]...)
			default:
				it.Raw = []byte{0x00}
			}
			return finish("type scalar-swap")
		case 3: // bignum tags
			var b []byte
			switch op.N % 3 {
			case 0:
				b = []byte{0xc2, 0x49, 1, 0, 0, 0, 0, 0, 0, 0, 0} // 2^64
			case 1:
				b = []byte{0xc3, 0x49, 1, 0, 0, 0, 0, 0, 0, 0, 0} // -2^64-1
			default:
				b = append([]byte{0xc2, 0x58, 0x40}, filler(64)...)
			}
			it.Raw = b
			return finish("type bignum")
		case 4: // container <-> container / scalar -> container
			switch it.Major {
			case 4:
				it.Hdr = head(5, uint64(len(it.Kids)/2), 0)
			case 5:
				it.Hdr = head(4, uint64(len(it.Kids)), 0)
			default:
				it.Raw = append([]byte{0x81}, enc(it)...)
			}
			return finish("type container-swap")
		default: // array of the item repeated / map with the item as key
			full := enc(it)
			if op.N%2 == 0 {
				it.Raw = append(append([]byte{0x82}, full...), full...)
			} else {
				it.Raw = append(append([]byte{0xa1}, full...), 0x01)
			}
			return finish("type repeated")
		}
	case "tag":
		r, ok := pick(anyItem)
		if !ok {
			return valid, "", false
		}
		tags := []uint64{0, 1, 2, 3, 4, 5, 21, 23, 24, 32, 55799, 1 << 32, math.MaxUint64, 18, 100}
		t := tags[op.V%len(tags)]
		r.it.Raw = append(head(6, t, 0), enc(r.it)...)
		return finish(fmt.Sprintf("tag %d", t))
	case "trail":
		// Garbage after the root or after an embedded blob's item.
		r, ok := pick(func(r ref) bool { return r.parent == nil || r.parent.Embedded })
		if !ok {
			return valid, "", false
		}
		full := enc(r.it)
		var g []byte
		switch op.V % 6 {
		case 0:
			g = []byte{0x00}
		case 1:
			g = []byte{0xff}
		case 2:
			g = full
		case 3:
			g = filler(1 + op.N%64)
		case 4:
			g = []byte{0xf6}
		default:
			g = bytes.Repeat([]byte{0x00}, 1+op.N%1024)
		}
		r.it.Raw = append(append([]byte{}, full...), g...)
		return finish(fmt.Sprintf("trail %d bytes", len(g)))
	case "float":
		r, ok := pick(isLeaf)
		if !ok {
			return valid, "", false
		}
		fl := [][]byte{
			{0xf9, 0x7e, 0x00}, {0xf9, 0x7c, 0x00}, {0xf9, 0xfc, 0x00}, {0xf9, 0x80, 0x00}, {0xf9, 0x7c, 0x01}, {0xf9, 0x00, 0x01},
			{0xfa, 0x7f, 0xc0, 0x00, 0x00}, {0xfa, 0x7f, 0x80, 0x00, 0x00}, {0xfa, 0xff, 0x80, 0x00, 0x00}, {0xfa, 0x7f, 0x80, 0x00, 0x01},
			{0xfb, 0x7f, 0xf8, 0, 0, 0, 0, 0, 0}, {0xfb, 0x7f, 0xf0, 0, 0, 0, 0, 0, 0}, {0xfb, 0xff, 0xf0, 0, 0, 0, 0, 0, 0}, {0xfb, 0x7f, 0xf0, 0, 0, 0, 0, 0, 1},
			{0xfb, 0x43, 0xf0, 0, 0, 0, 0, 0, 0}, {0xfb, 0x3f, 0xf0, 0, 0, 0, 0, 0, 0}, {0xf9, 0x3c, 0x00}, {0xfb, 0x7f, 0xef, 0xff, 0xff, 0xff, 0xff, 0xff, 0xff},
		}
		r.it.Raw = fl[op.V%len(fl)]
		return finish(fmt.Sprintf("float %x", r.it.Raw))
	case "width":
		r, ok := pick(func(r ref) bool { return r.it.Major != 7 && !r.it.Indef })
		if !ok {
			return valid, "", false
		}
		it := r.it
		arg := it.Arg
		switch {
		case it.Major == 4:
			arg = uint64(len(it.Kids))
		case it.Major == 5:
			arg = uint64(len(it.Kids) / 2)
		case it.Embedded:
			arg = uint64(len(enc(it.Kids[0])))
		case it.Major == 2 || it.Major == 3:
			arg = uint64(len(it.Payload))
		}
		w := []int{1, 2, 4, 8}[op.V%4]
		it.Hdr = headW(it.Major, arg, w)
		return finish(fmt.Sprintf("width major=%d arg=%d in %d bytes", it.Major, arg, w))
	case "negint":
		r, ok := pick(func(r ref) bool { return r.it.Major <= 1 })
		if !ok {
			return valid, "", false
		}
		vals := []uint64{0, r.it.Arg, 1<<63 - 1, 1 << 63, math.MaxUint64, 1<<32 - 1, 23, 24}
		v := vals[op.V%len(vals)]
		m := byte(1)
		if op.N%4 == 3 {
			m = 0 // extreme positive values
		}
		r.it.Raw = head(m, v, 0)
		return finish(fmt.Sprintf("negint major=%d arg=%d", m, v))
	case "keytype":
		r, ok := pick(isMap)
		if !ok {
			return valid, "", false
		}
		i := op.V % (len(r.it.Kids) / 2)
		k := r.it.Kids[2*i]
		keys := [][]byte{{0x00}, {0x20}, {0x40}, {0x80}, {0xa0}, {0xf6}, {0xf5}, {0xf9, 0x7e, 0x00}, {0x60}, append([]byte{0x40 | byte(len(k.Payload)&0x17)}, k.Payload[:len(k.Payload)&0x17]...), {0x78, 0x00}}
		k.Raw = keys[op.N%len(keys)]
		return finish(fmt.Sprintf("keytype %q -> %x", k.textOf(), k.Raw))
	case "null":
		r, ok := pick(anyItem)
		if !ok {
			return valid, "", false
		}
		repl := [][]byte{{0xf6}, {0xf7}, {0xa0}, {0x80}, {0x40}, {0x60}, {0x00}, {0xf4}, {0xf5}}
		r.it.Raw = repl[op.V%len(repl)]
		return finish(fmt.Sprintf("null -> %x", r.it.Raw))
	case "drop":
		r, ok := pick(func(r ref) bool { return (r.it.Major == 4 && len(r.it.Kids) >= 1) || isMap(r) })
		if !ok {
			return valid, "", false
		}
		it := r.it
		if it.Major == 5 {
			i := op.V % (len(it.Kids) / 2)
			name := it.Kids[2*i].textOf()
			it.Kids = append(append([]*Item{}, it.Kids[:2*i]...), it.Kids[2*i+2:]...)
			return finish(fmt.Sprintf("drop pair %q", name))
		}
		i := op.V % len(it.Kids)
		it.Kids = append(append([]*Item{}, it.Kids[:i]...), it.Kids[i+1:]...)
		return finish("drop element")
	case "splice":
		r, ok := pick(anyItem)
		if !ok {
			return valid, "", false
		}
		var others []*Item
		root.walk(func(x, _ *Item, _ int) {
			if x != r.it {
				others = append(others, x)
			}
		})
		if len(others) == 0 {
			return valid, "", false
		}
		o := others[op.V%len(others)]
		raw := enc(o)
		if len(raw)+len(valid) > MaxMutantSize {
			return valid, "", false
		}
		r.it.Raw = append([]byte{}, raw...)
		return finish(fmt.Sprintf("splice major %d <- major %d", r.it.Major, o.Major))
	case "bigblob":
		r, ok := pick(func(r ref) bool { return (r.it.Major == 2 || r.it.Major == 3) && !r.it.Indef })
		if !ok {
			return valid, "", false
		}
		n := []int{255, 256, 4096, 20000, 65535, 65536}[op.V%6]
		if room := MaxMutantSize - len(valid); n > room {
			n = room
		}
		if n <= 0 {
			return valid, "", false
		}
		var body []byte
		if op.N%2 == 0 {
			body = bytes.Repeat([]byte{'A'}, n)
		} else {
			body = filler(n)
			if r.it.Major == 3 {
				for i := range body {
					body[i] = 'a' + body[i]%26
				}
			}
		}
		r.it.Raw = append(head(r.it.Major, uint64(len(body)), 0), body...)
		return finish(fmt.Sprintf("bigblob %d", n))
	case "utf8":
		r, ok := pick(func(r ref) bool { return r.it.Major == 3 && !r.it.Indef })
		if !ok {
			return valid, "", false
		}
		bad := [][]byte{{0xff}, {0xc0, 0x80}, {0xed, 0xa0, 0x80}, {0xf4, 0x90, 0x80, 0x80}, {0xe2, 0x82}, {0x00}, {0xef, 0xbb, 0xbf}}
		b := bad[op.V%len(bad)]
		body := append(append([]byte{}, r.it.Payload...), b...)
		if op.N%2 == 0 && len(r.it.Payload) > 0 {
			body = append(append([]byte{}, b...), r.it.Payload[1:]...)
		}
		r.it.Raw = append(head(3, uint64(len(body)), 0), body...)
		return finish(fmt.Sprintf("utf8 %x", b))
	case "simple":
		r, ok := pick(isLeaf)
		if !ok {
			return valid, "", false
		}
		s := [][]byte{{0xe0}, {0xf3}, {0xf8, 0x00}, {0xf8, 0x18}, {0xf8, 0x20}, {0xf8, 0xff}, {0xfc}, {0xfd}, {0xfe}, {0xff}, {0xf7}, {0x1c}, {0x1f}, {0x3f}, {0xdf}}
		r.it.Raw = s[op.V%len(s)]
		return finish(fmt.Sprintf("simple %x", r.it.Raw))
	}
	return valid, "", false
}

// MutateBytes applies a byte-level corruption to a hand-written binary encoding.
func MutateBytes(valid []byte, op MutOp) (out []byte, what string, applied bool) {
	d := append([]byte{}, valid...)
	n := len(d)
	rr := core.NewRand(op.Seed ^ 0xb16)
	pos := 0
	if n > 0 {
		pos = op.Sel % n
	}
	done := func(w string) ([]byte, string, bool) { return d, w, !bytes.Equal(d, valid) }
	switch op.K {
	case "flip":
		if n == 0 {
			return valid, "", false
		}
		d[pos] ^= 1 << uint(op.V%8)
		return done(fmt.Sprintf("flip bit %d of byte %d", op.V%8, pos))
	case "set":
		if n == 0 {
			return valid, "", false
		}
		d[pos] = []byte{0x00, 0xff, 0x7f, 0x80, 0x01, 0x02, 0xfe}[op.V%7]
		return done(fmt.Sprintf("set byte %d to %#x", pos, d[pos]))
	case "trunc":
		if n == 0 {
			return valid, "", false
		}
		d = d[:pos]
		return done(fmt.Sprintf("trunc to %d of %d", pos, n))
	case "extend":
		k := 1 + op.N%64
		if op.V%3 == 0 {
			d = append(d, bytes.Repeat([]byte{0}, k)...)
		} else {
			d = append(d, rr.Bytes(k)...)
		}
		return done(fmt.Sprintf("extend by %d", k))
	case "insert":
		k := 1 + op.N%16
		ins := rr.Bytes(k)
		d = append(append(append([]byte{}, d[:pos]...), ins...), valid[pos:]...)
		return done(fmt.Sprintf("insert %d at %d", k, pos))
	case "delete":
		if n == 0 {
			return valid, "", false
		}
		k := 1 + op.N%16
		if pos+k > n {
			k = n - pos
		}
		d = append(append([]byte{}, d[:pos]...), valid[pos+k:]...)
		return done(fmt.Sprintf("delete %d at %d", k, pos))
	case "dup":
		if n == 0 {
			return valid, "", false
		}
		k := 1 + op.N%64
		if pos+k > n {
			k = n - pos
		}
		d = append(append(append([]byte{}, valid[:pos+k]...), valid[pos:pos+k]...), valid[pos+k:]...)
		return done(fmt.Sprintf("dup %d at %d", k, pos))
	case "u16":
		if n < 2 {
			return valid, "", false
		}
		p := op.Sel % (n - 1)
		cur := binary.LittleEndian.Uint16(d[p:])
		vals := []uint16{0, 1, 0xffff, 0x7fff, 0x8000, cur + 1, cur - 1, uint16(n), uint16(n - p), cur * 8, 0x0100}
		binary.LittleEndian.PutUint16(d[p:], vals[op.V%len(vals)])
		return done(fmt.Sprintf("u16 at %d: %d -> %d", p, cur, vals[op.V%len(vals)]))
	case "u32":
		if n < 4 {
			return valid, "", false
		}
		p := op.Sel % (n - 3)
		cur := binary.LittleEndian.Uint32(d[p:])
		vals := []uint32{0, 1, 0xffffffff, 0x7fffffff, 0x80000000, cur + 1, cur - 1, uint32(n), uint32(n - p), 0xfffffff0, 0x00010000}
		binary.LittleEndian.PutUint32(d[p:], vals[op.V%len(vals)])
		return done(fmt.Sprintf("u32 at %d: %d -> %d", p, cur, vals[op.V%len(vals)]))
	case "lenfield":
		// Length-field aware: a 16/32-bit field (either byte order) whose extent ends exactly at
		// the end of the data, or at (or up to 4 bytes before) the header of such a field, is very
		// likely a length field of a nested structure. It is rewritten so that its extent ends
		// within 8 bytes of the end of the data (or of its old end): the boundary cases of the
		// checks on what must still follow it.
		fs := lenFields(valid)
		if len(fs) == 0 {
			return valid, "", false
		}
		f := fs[op.Sel%len(fs)]
		target := n - op.V%9 // extent ends 0..8 bytes before the end of the data
		switch op.N % 4 {
		case 1:
			target = f.end - 1 - op.V%8 // ... or a little before its old end
		case 2:
			target = f.end + 1 + op.V%8 // ... or a little behind it
		}
		nv := target - (f.off + f.width)
		if nv < 0 || (f.width == 2 && nv > 0xffff) {
			return valid, "", false
		}
		switch {
		case f.width == 2 && f.le:
			binary.LittleEndian.PutUint16(d[f.off:], uint16(nv))
		case f.width == 2:
			binary.BigEndian.PutUint16(d[f.off:], uint16(nv))
		case f.le:
			binary.LittleEndian.PutUint32(d[f.off:], uint32(nv))
		default:
			binary.BigEndian.PutUint32(d[f.off:], uint32(nv))
		}
		return done(fmt.Sprintf("length field (%d bytes, le=%v) at %d: %d -> %d (extent ends at %d of %d)", f.width, f.le, f.off, f.val, nv, target, n))
	case "zero":
		if n == 0 {
			return valid, "", false
		}
		k := 1 + op.N%32
		for i := pos; i < n && i < pos+k; i++ {
			d[i] = []byte{0x00, 0xff}[op.V%2]
		}
		return done(fmt.Sprintf("fill %d at %d", k, pos))
	case "swap":
		if n < 2 {
			return valid, "", false
		}
		q := (pos + 1 + op.N%(n-1)) % n
		d[pos], d[q] = d[q], d[pos]
		return done(fmt.Sprintf("swap bytes %d and %d", pos, q))
	case "repeat":
		k := 2 + op.N%6
		if n*k > 1<<20 {
			return valid, "", false
		}
		d = bytes.Repeat(valid, k)
		return done(fmt.Sprintf("repeat x%d", k))
	}
	return valid, "", false
}

// lenField is a probable length field of a hand-written binary encoding.
type lenField struct {
	off, width int
	le         bool
	val, end   int
}

// lenFields finds probable length fields: level 0 = fields whose extent ends exactly at the end
// of the data; level k+1 = fields whose extent ends at the offset of a level-k field or up to 4
// bytes before it (a type tag in front of the length). Deterministic order (offset, width, le).
func lenFields(b []byte) []lenField {
	n := len(b)
	if n < 8 || n > 1<<16 {
		return nil
	}
	var all []lenField
	for off := 0; off+2 <= n; off++ {
		for _, w := range []int{2, 4} {
			if off+w > n {
				continue
			}
			for _, le := range []bool{true, false} {
				var v int
				switch {
				case w == 2 && le:
					v = int(binary.LittleEndian.Uint16(b[off:]))
				case w == 2:
					v = int(binary.BigEndian.Uint16(b[off:]))
				case le:
					v = int(binary.LittleEndian.Uint32(b[off:]))
				default:
					v = int(binary.BigEndian.Uint32(b[off:]))
				}
				if v <= 0 || off+w+v > n {
					continue
				}
				all = append(all, lenField{off: off, width: w, le: le, val: v, end: off + w + v})
			}
		}
	}
	heads := map[int]bool{n: true}
	var out []lenField
	seen := map[[3]int]bool{}
	for level := 0; level < 3; level++ {
		next := map[int]bool{}
		for _, f := range all {
			k := [3]int{f.off, f.width, 0}
			if f.le {
				k[2] = 1
			}
			if seen[k] {
				continue
			}
			hit := false
			for d := 0; d <= 4; d += 2 {
				if heads[f.end+d] && (level > 0 || d == 0) {
					hit = true
				}
			}
			if hit {
				seen[k] = true
				out = append(out, f)
				next[f.off] = true
			}
		}
		heads = next
		if len(out) > 64 {
			break
		}
	}
	return out
}
