package decode

import (
	"encoding/json"
	"fmt"
	"os"
	"time"

	"verif/sim/core"
)

// DecoderEngine presents seeded structured corruptions of valid encodings at the exported
// decode and verify entry points.
type DecoderEngine struct{}

// Case is one corrupted input presented at one boundary.
type Case struct {
	T string  `json:"t"` // target name
	S int     `json:"s"` // valid sample (modulo)
	M []MutOp `json:"m"` // corruption operators, applied in order
}

// targetWeights biases the draw towards the hand-written binary decoders and the deep formats.
var targetWeights = map[string]int{
	"mkvs.node": 6, "mkvs.key": 2, "mkvs.proof": 5, "mkvs.proof.entries": 5, "mkvs.writelog": 2, "cp.metadata": 1, "cp.chunk": 5,
	"roothash.commitment": 4, "roothash.proposal": 2, "roothash.evidence": 2, "roothash.executorcommit": 2,
	"pcs.quote": 4, "pcs.bundle": 2, "pcs.collateral": 1, "node.captee": 2, "node.sgxconstraints": 1, "ias.avrbundle": 1, "ias.avr": 1,
	"registry.runtime": 4, "entity.signed": 2, "entity.descriptor": 2, "node.multisigned": 3, "node.descriptor": 4,
	"tx.envelope": 3, "tx.signed-inner": 4, "tx.body": 5,
}

// Generate implements core.Engine.
func (DecoderEngine) Generate(r *core.Rand, tier core.Tier) *core.Scenario {
	SetChainContext()
	c := GetCorpus()
	var w []int
	for _, t := range c.Targets {
		x := targetWeights[t.Name]
		if x == 0 {
			x = 1
		}
		// Swarm: a scenario concentrates on a subset of the targets.
		if r.Chance(1, 3) {
			x = 0
		}
		w = append(w, x)
	}
	n := r.Range(60, 160)
	if tier == core.Thorough {
		n = r.Range(100, 300)
	}
	// The slow-feed chunk ("trickle": one item delivered a byte per read) is confined to a small
	// share of the scenarios.
	trickle := r.Chance(1, 25)
	sc := &core.Scenario{Engine: "decoders", Knobs: core.MustJSON(map[string]int{"targets": len(c.Targets)})}
	for i := 0; i < n; i++ {
		t := c.Targets[r.Pick(w)]
		cs := Case{T: t.Name, S: r.Intn(1 << 10)}
		for j, k := 0, r.Pick([]int{12, 3, 1})+1; j < k; j++ {
			op := GenMutOp(r, t.Family)
			if len(t.Kinds) > 0 {
				op.K = t.Kinds[r.Intn(len(t.Kinds))]
				if op.K == "trickle" && !trickle {
					op.K = "frag"
				}
			}
			if len(t.Unders) > 0 && r.Chance(1, 3) {
				op.Under = t.Unders[r.Intn(len(t.Unders))]
			}
			cs.M = append(cs.M, op)
		}
		sc.Ops = append(sc.Ops, core.MustJSON(cs))
	}
	return sc
}

// Simplify implements core.Simplifier: drop single operators of multi-operator cases.
func (DecoderEngine) Simplify(sc *core.Scenario) []*core.Scenario {
	var out []*core.Scenario
	for i, raw := range sc.Ops {
		var cs Case
		if json.Unmarshal(raw, &cs) != nil || len(cs.M) < 2 {
			continue
		}
		for j := range cs.M {
			t := cs
			t.M = append(append([]MutOp{}, cs.M[:j]...), cs.M[j+1:]...)
			c := sc.Clone()
			c.Ops[i] = core.MustJSON(t)
			out = append(out, c)
		}
	}
	return out
}

func dViol(kind, fp, detail string) *core.Violation {
	return &core.Violation{Property: "C16", Kind: kind, Fingerprint: fp, Detail: detail}
}

// applyOps applies the operators of a case to a valid sample.
func applyOps(t *Target, valid []byte, ops []MutOp) (mut []byte, what string, kinds []string, changed bool) {
	mut = valid
	for _, op := range ops {
		var m []byte
		var w string
		var ok bool
		switch {
		case t.Mutate != nil:
			m, w, ok = t.Mutate(mut, op)
		case t.Family == "cbor":
			m, w, ok = MutateCBOR(mut, op)
		default:
			m, w, ok = MutateBytes(mut, op)
		}
		if ok {
			mut = m
			kinds = append(kinds, op.K)
			if what != "" {
				what += "; "
			}
			what += op.K + ": " + w
			changed = true
		}
	}
	return
}

// Execute implements core.Engine.
func (DecoderEngine) Execute(sc *core.Scenario, st *core.Stats) (*core.Violation, bool) {
	SetChainContext()
	c := GetCorpus()
	if c.Broken != nil {
		v := *c.Broken
		return &v, true
	}
	env := c.NewEnv()
	defer env.Close()
	m := NewMeter()
	presented, rejected, maxDepth := 0, 0, 0
	for i, raw := range sc.Ops {
		var cs Case
		if err := json.Unmarshal(raw, &cs); err != nil {
			core.Harnessf("decoders: bad case: %v", err)
		}
		t := c.Target(cs.T)
		if t == nil {
			core.Harnessf("decoders: unknown target %q", cs.T)
		}
		valid := t.Valid[cs.S%len(t.Valid)]
		mut, what, kinds, changed := applyOps(t, valid, cs.M)
		if !changed {
			st.Inc("probe.op_not_applicable")
			continue
		}
		presented++
		var accepted bool
		if t.Prep != nil {
			t.Prep(env, mut)
		}
		kind, detail, oc := m.Call(t.Name+" ["+what+"]", len(mut), func() func() {
			return func() { accepted = t.Call(env, mut) }
		})
		if debugMeter && (oc.Grow > 1<<20 || oc.Alloc > 32<<20 || oc.Dur > 200*time.Millisecond) {
			fmt.Fprintf(os.Stderr, "METER-CASE %s [%s] %s\n", t.Name, what, raw)
		}
		if kind != "" {
			fp := kind + " " + t.Name
			if kind == "panic" {
				fp = "panic in " + panicSite(detail)
			}
			return dViol(kind, fp, fmt.Sprintf("case %d, target %s, valid sample %d (%d bytes) corrupted by [%s] (%d bytes): %s", i, t.Name, cs.S%len(t.Valid), len(valid), what, len(mut), detail)), true
		}
		if env.Probe != nil {
			p := env.Probe
			env.Probe = nil
			if p.Max > maxDepth {
				maxDepth = p.Max
			}
			if p.Tripped {
				return dViol("read-recursion", "read-recursion "+t.Name, fmt.Sprintf("case %d, target %s, valid sample %d corrupted by [%s] (%d bytes): after %d reads of the input stream the code under test was %d or more call frames deep: it recurses once per Read while an item is incomplete, so the call-stack depth is driven by how finely the sender slices the stream (goroutine stacks are limited to 1 GB; exceeding the limit is a fatal, unrecoverable runtime error)", i, t.Name, cs.S%len(t.Valid), what, len(mut), p.Reads, DepthLimit)), true
			}
		}
		verdict := "rejected"
		if accepted {
			verdict = "accepted"
		} else {
			rejected++
		}
		for _, k := range kinds {
			st.Inc("fault." + k)
			st.Inc(fmt.Sprintf("probe.%s.%s.%s", t.Name, k, verdict))
		}
		st.Event("%s [%s] -> %s", t.Name, what, verdict)
		st.Distinct("mutants", core.Hash64([]byte(t.Name), mut))
	}
	m.Report(st, "decoders")
	if maxDepth > 0 {
		st.Inc(fmt.Sprintf("probe.decoders.deepest_read_callback_le_%d_frames", depthBucket(maxDepth)))
	}
	st.Sample(2, map[string]interface{}{"cases": len(sc.Ops), "first": firstN(sc.Ops, 3)})
	return nil, presented >= 1 && rejected >= 1
}

func firstN(ops []json.RawMessage, n int) []json.RawMessage {
	if len(ops) < n {
		return ops
	}
	return ops[:n]
}

// panicSite names the innermost frame of the repository (or of a dependency) in a panic detail.
func panicSite(detail string) string {
	if s := core.PanicSite(detail, "oasis-core/go/"); s != "unknown" {
		return s
	}
	return core.PanicSite(detail, "github.com/")
}

func depthBucket(d int) int {
	for _, b := range []int{64, 256, 1024, DepthLimit} {
		if d <= b {
			return b
		}
	}
	return DepthLimit
}
