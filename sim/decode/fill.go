package decode

import (
	"reflect"

	"github.com/oasisprotocol/oasis-core/go/common/cbor"

	"verif/sim/core"
)

// FillValue populates v (a settable value) with a "fully occupied" shape: every exported pointer
// field allocated, one or two elements in every slice and map, small non-zero scalars. Types
// with unexported state (quantities, big numbers) keep their zero value. The result is used to
// obtain a valid encoding of a type that exercises all of its optional fields.
func FillValue(v reflect.Value, r *core.Rand, depth int) {
	if depth > 7 || !v.CanSet() {
		return
	}
	switch v.Kind() {
	case reflect.Bool:
		v.SetBool(r.Bool())
	case reflect.Int, reflect.Int8, reflect.Int16, reflect.Int32, reflect.Int64:
		v.SetInt(int64(r.Intn(3) + 1))
	case reflect.Uint, reflect.Uint8, reflect.Uint16, reflect.Uint32, reflect.Uint64, reflect.Uintptr:
		v.SetUint(uint64(r.Intn(3) + 1))
	case reflect.Float32, reflect.Float64:
		v.SetFloat(1.5)
	case reflect.String:
		v.SetString([]string{"a", "verif", "staking"}[r.Intn(3)])
	case reflect.Ptr:
		if v.Type().Elem().Kind() == reflect.Struct || depth < 5 {
			n := reflect.New(v.Type().Elem())
			FillValue(n.Elem(), r, depth+1)
			v.Set(n)
		}
	case reflect.Struct:
		for i := 0; i < v.NumField(); i++ {
			f := v.Field(i)
			if v.Type().Field(i).PkgPath != "" { // unexported
				continue
			}
			FillValue(f, r, depth+1)
		}
	case reflect.Slice:
		if v.Type().Elem().Kind() == reflect.Uint8 {
			v.SetBytes(r.Bytes(1 + r.Intn(40)))
			return
		}
		n := 1 + r.Intn(2)
		s := reflect.MakeSlice(v.Type(), n, n)
		for i := 0; i < n; i++ {
			FillValue(s.Index(i), r, depth+1)
		}
		v.Set(s)
	case reflect.Array:
		for i := 0; i < v.Len(); i++ {
			if v.Type().Elem().Kind() == reflect.Uint8 {
				v.Index(i).SetUint(uint64(r.Intn(256)))
			} else {
				FillValue(v.Index(i), r, depth+1)
			}
		}
	case reflect.Map:
		m := reflect.MakeMap(v.Type())
		k := reflect.New(v.Type().Key()).Elem()
		FillValue(k, r, depth+1)
		e := reflect.New(v.Type().Elem()).Elem()
		FillValue(e, r, depth+1)
		m.SetMapIndex(k, e)
		v.Set(m)
	}
}

// FilledEncoding returns the canonical encoding of a filled instance of the type of proto (a
// value, not a pointer), or nil when such an instance cannot be encoded or does not decode back
// into the type (custom marshalers may refuse arbitrary field values).
func FilledEncoding(proto interface{}, seed uint64) []byte {
	t := reflect.TypeOf(proto)
	if t == nil {
		return nil
	}
	var out []byte
	pv, _ := core.Guard(func() {
		p := reflect.New(t)
		FillValue(p.Elem(), core.NewRand(seed), 0)
		b := cbor.Marshal(p.Interface())
		back := reflect.New(t)
		if err := cbor.Unmarshal(b, back.Interface()); err == nil {
			out = b
		}
	})
	if pv != nil {
		return nil
	}
	return out
}

// CallValidators calls the zero-argument validation methods of a decoded value (ValidateBasic,
// SanityCheck, Validate), as the consumers of the type do after decoding.
func CallValidators(ptr interface{}) {
	v := reflect.ValueOf(ptr)
	for _, name := range []string{"ValidateBasic", "SanityCheck", "Validate"} {
		m := v.MethodByName(name)
		if !m.IsValid() || m.Type().NumIn() != 0 {
			continue
		}
		m.Call(nil)
	}
}
