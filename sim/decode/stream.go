package decode

import (
	"bytes"
	"context"
	"encoding/binary"
	"encoding/json"
	"fmt"
	"io"
	"net"
	"os"
	"os/exec"
	"path/filepath"
	"reflect"
	"runtime"
	"runtime/metrics"
	"strings"
	"sync"
	"time"

	"github.com/oasisprotocol/oasis-core/go/common"
	"github.com/oasisprotocol/oasis-core/go/common/cbor"
	"github.com/oasisprotocol/oasis-core/go/common/logging"
	"github.com/oasisprotocol/oasis-core/go/common/verifhook"
	"github.com/oasisprotocol/oasis-core/go/common/version"
	"github.com/oasisprotocol/oasis-core/go/runtime/host/protocol"

	"verif/sim/core"
	"verif/sim/store"
)

// StreamEngine drives a runtime host protocol connection (host side or guest side) over an
// in-memory duplex with a simulated peer. The peer script is sequential; every scheduling-relevant
// decision (how the byte stream is sliced into reads, when the peer answers, stalls, closes, when
// the caller's context is cancelled, when a write deadline expires) is taken by the script. Real
// goroutines run the connection; wall-clock time is used only for generous watchdogs.
//
// Every scenario is executed in a child process (the driver's own "replay" sub-command): a panic
// in one of the connection's own goroutines cannot be recovered by the harness and would
// otherwise take the worker down instead of being reported.
type StreamEngine struct{}

const (
	streamMaxFrame  = 64 << 20 // the documented maximum message size of the codec
	streamWatchdog  = 90 * time.Second
	streamHangLimit = 30 * time.Second
)

// ---------------------------------------------------------------------------------------------
// The in-memory duplex.

type simAddr struct{}

func (simAddr) Network() string { return "verif" }
func (simAddr) String() string  { return "verif-sim" }

type timeoutErr struct{}

func (timeoutErr) Error() string   { return "i/o timeout (simulated deadline)" }
func (timeoutErr) Timeout() bool   { return true }
func (timeoutErr) Temporary() bool { return true }
func (timeoutErr) Unwrap() error   { return os.ErrDeadlineExceeded }

// simConn is the net.Conn handed to the connection under test.
type simConn struct {
	mu     sync.Mutex
	notify chan struct{} // pinged on every state change (the script re-checks its condition)
	wakeCh chan struct{} // closed at the next state change (connection-side waiters)

	in            []byte
	inEOF         bool
	readerWaiting bool
	out           []byte
	closed        bool

	writeStall      bool
	writerBlocked   bool
	deadlineArmed   bool
	deadlineFired   bool
	deadlinesSet    int
	bytesRead       int64
	reads           int
	maxDepth        int
	depthTripped    bool
	frameBytesRead  int64 // bytes consumed since the peer marked the start of a frame
	writesAfterStop int
}

func newSimConn() *simConn { return &simConn{notify: make(chan struct{}, 1)} }

func (c *simConn) ping() {
	select {
	case c.notify <- struct{}{}:
	default:
	}
}

// Read implements net.Conn (called by the connection's reader goroutine).
func (c *simConn) Read(b []byte) (int, error) {
	c.mu.Lock()
	for len(c.in) == 0 && !c.inEOF && !c.closed {
		c.readerWaiting = true
		ch := c.wakeLocked()
		c.mu.Unlock()
		c.ping()
		<-ch
		c.mu.Lock()
	}
	c.readerWaiting = false
	if c.closed {
		c.mu.Unlock()
		return 0, io.ErrClosedPipe
	}
	if len(c.in) == 0 {
		c.mu.Unlock()
		c.ping()
		return 0, io.EOF
	}
	n := copy(b, c.in)
	c.in = c.in[n:]
	c.bytesRead += int64(n)
	c.frameBytesRead += int64(n)
	c.reads++
	sample := c.reads&127 == 0 && !c.depthTripped
	c.mu.Unlock()
	if sample {
		var pcs [DepthLimit]uintptr
		d := runtime.Callers(0, pcs[:])
		c.mu.Lock()
		if d > c.maxDepth {
			c.maxDepth = d
		}
		if d >= DepthLimit {
			c.depthTripped = true
		}
		c.mu.Unlock()
	}
	c.ping()
	return n, nil
}

// wakeLocked returns a channel that is closed at the next state change.
func (c *simConn) wakeLocked() <-chan struct{} {
	if c.wakeCh == nil {
		c.wakeCh = make(chan struct{})
	}
	return c.wakeCh
}

func (c *simConn) broadcastLocked() {
	if c.wakeCh != nil {
		close(c.wakeCh)
		c.wakeCh = nil
	}
}

// Write implements net.Conn (called by the connection's writer goroutine).
func (c *simConn) Write(b []byte) (int, error) {
	c.mu.Lock()
	for c.writeStall && !c.deadlineFired && !c.closed {
		c.writerBlocked = true
		ch := c.wakeLocked()
		c.mu.Unlock()
		c.ping()
		<-ch
		c.mu.Lock()
	}
	c.writerBlocked = false
	defer c.mu.Unlock()
	defer c.ping()
	if c.closed {
		return 0, io.ErrClosedPipe
	}
	if c.writeStall && c.deadlineFired {
		c.deadlineFired = false
		return 0, timeoutErr{}
	}
	c.out = append(c.out, b...)
	return len(b), nil
}

// Close implements net.Conn.
func (c *simConn) Close() error {
	c.mu.Lock()
	c.closed = true
	c.broadcastLocked()
	c.mu.Unlock()
	c.ping()
	return nil
}

func (c *simConn) LocalAddr() net.Addr             { return simAddr{} }
func (c *simConn) RemoteAddr() net.Addr            { return simAddr{} }
func (c *simConn) SetDeadline(time.Time) error     { return nil }
func (c *simConn) SetReadDeadline(time.Time) error { return nil }
func (c *simConn) SetWriteDeadline(t time.Time) error {
	c.mu.Lock()
	c.deadlineArmed = !t.IsZero()
	if c.deadlineArmed {
		c.deadlinesSet++
	} else {
		c.deadlineFired = false
	}
	c.mu.Unlock()
	return nil
}

// ---- peer side ----

// change applies a state change made by the peer and wakes the connection-side waiters.
func (c *simConn) change(f func()) {
	c.mu.Lock()
	f()
	c.broadcastLocked()
	c.mu.Unlock()
}

// peerWait blocks the script until cond holds, another channel fires, or the watchdog expires.
// It returns "cond", "other" or "timeout".
func (c *simConn) peerWait(cond func() bool, other <-chan struct{}, limit time.Duration) string {
	deadline := time.NewTimer(limit)
	defer deadline.Stop()
	for {
		c.mu.Lock()
		ok := cond()
		c.mu.Unlock()
		if ok {
			return "cond"
		}
		select {
		case <-c.notify:
		case <-other:
			return "other"
		case <-deadline.C:
			return "timeout"
		}
	}
}

// ---------------------------------------------------------------------------------------------
// Scenario model.

// Step is one step of the peer script.
type Step struct {
	// K: call (the harness calls through the connection, the peer answers with fault F) |
	// req (the peer sends a request with fault F) | noise (unsolicited frames) | close | peerclose.
	K string `json:"k"`
	// B selects the body kind, N a payload size.
	B int `json:"b,omitempty"`
	N int `json:"n,omitempty"`
	// F is the fault.
	F string `json:"f,omitempty"`
	// Split seeds how the peer's bytes are sliced into reads (0 = one piece).
	Split uint64 `json:"split,omitempty"`
	Mut   *MutOp `json:"mut,omitempty"`
}

// Session is one connection lifecycle.
type Session struct {
	Side string `json:"side"` // host | guest
	// HS is the handshake fault (host side): "" = correct handshake.
	HS    string `json:"hs,omitempty"`
	HSMut *MutOp `json:"hs_mut,omitempty"`
	Split uint64 `json:"split,omitempty"`
	Steps []Step `json:"steps"`
}

var callFaults = []string{"", "", "", "error-body", "wrong-id", "dup", "dup-many", "wrong-type", "bad-type", "corrupt", "corrupt", "len-short", "len-long", "len-zero", "len-over", "trunc-close", "stall", "stall-write", "garbage", "coalesce", "empty-body", "two-bodies", "id-max", "trickle-large", "close-before"}
var reqFaults = []string{"", "", "", "dup-id", "corrupt", "corrupt", "unknown-body", "two-bodies", "handler-error", "handler-block", "len-over", "len-zero", "garbage", "trunc-close", "burst"}
var noiseKinds = []string{"response-without-request", "bad-type", "zero-type", "response-id-max", "error-without-request"}
var hsFaults = []string{"", "", "", "", "", "", "garbage-before", "wrong-body", "wrong-version", "error-body", "stall", "early-request", "close", "corrupt", "trunc", "len-over", "dup", "wrong-id", "ok-then-over", "ok-then-close", "ok-then-garbage"}

// Generate implements core.Engine.
func (StreamEngine) Generate(r *core.Rand, tier core.Tier) *core.Scenario {
	sc := &core.Scenario{Engine: "stream", Knobs: core.MustJSON(map[string]int{"v": 1})}
	ns := r.Range(12, 24)
	if tier == core.Thorough {
		ns = r.Range(16, 32)
	}
	trickle := r.Chance(1, 25)
	for i := 0; i < ns; i++ {
		s := Session{Side: []string{"host", "guest"}[r.Intn(2)], Split: r.Uint64()}
		if s.Side == "host" {
			s.HS = hsFaults[r.Intn(len(hsFaults))]
			if s.HS == "corrupt" {
				m := GenMutOp(r, "cbor")
				s.HSMut = &m
			}
		}
		for j, n := 0, r.Range(1, 7); j < n; j++ {
			st := Step{B: r.Intn(8), N: []int{0, 1, 23, 24, 255, 256, 4000, 70000}[r.Intn(8)]}
			if r.Chance(2, 3) {
				st.Split = r.Uint64() | 1
			}
			switch r.Pick([]int{8, 5, 2, 1, 1}) {
			case 0:
				st.K, st.F = "call", callFaults[r.Intn(len(callFaults))]
				if st.F == "trickle-large" && !trickle {
					st.F = "coalesce"
				}
			case 1:
				st.K, st.F = "req", reqFaults[r.Intn(len(reqFaults))]
			case 2:
				st.K, st.F = "noise", noiseKinds[r.Intn(len(noiseKinds))]
			case 3:
				st.K = "close"
			default:
				st.K = "peerclose"
			}
			if st.F == "corrupt" {
				m := GenMutOp(r, "cbor")
				if r.Chance(1, 2) {
					m.Under = "body"
				}
				st.Mut = &m
			}
			s.Steps = append(s.Steps, st)
		}
		sc.Ops = append(sc.Ops, core.MustJSON(s))
	}
	return sc
}

// Simplify implements core.Simplifier: drop single steps, then faults, of the sessions.
func (StreamEngine) Simplify(sc *core.Scenario) []*core.Scenario {
	var out []*core.Scenario
	for i, raw := range sc.Ops {
		var s Session
		if json.Unmarshal(raw, &s) != nil {
			continue
		}
		for j := range s.Steps {
			t := s
			t.Steps = append(append([]Step{}, s.Steps[:j]...), s.Steps[j+1:]...)
			c := sc.Clone()
			c.Ops[i] = core.MustJSON(t)
			out = append(out, c)
		}
		if s.Split != 0 {
			t := s
			t.Split = 0
			c := sc.Clone()
			c.Ops[i] = core.MustJSON(t)
			out = append(out, c)
		}
	}
	return out
}

func sViol(kind, fp, detail string) *core.Violation {
	return &core.Violation{Property: "C16", Kind: kind, Fingerprint: fp, Detail: detail}
}

// childResult is what the child process reports back.
type childResult struct {
	Violation  *core.Violation  `json:"violation"`
	Nontrivial bool             `json:"nontrivial"`
	Counters   map[string]int64 `json:"counters"`
	Events     []string         `json:"events"`
}

// Execute implements core.Engine.
func (e StreamEngine) Execute(sc *core.Scenario, st *core.Stats) (*core.Violation, bool) {
	if out := os.Getenv("VERIF_C16_STREAM_RESULT"); out != "" {
		// Child: run in this process and report through the result file.
		_ = os.Unsetenv("VERIF_C16_STREAM_RESULT")
		cst := core.NewStats()
		cst.TraceOn = true
		v, nt := e.executeLocal(sc, cst)
		res := childResult{Violation: v, Nontrivial: nt, Counters: cst.Counters, Events: cst.Trace}
		if err := os.WriteFile(out, core.MustJSON(res), 0o644); err != nil {
			core.Harnessf("stream child: cannot write result: %v", err)
		}
		return v, nt
	}
	if os.Getenv("VERIF_C16_STREAM_INPROCESS") != "" {
		return e.executeLocal(sc, st)
	}
	self, err := os.Executable()
	if err != nil {
		core.Harnessf("stream: cannot find own executable: %v", err)
	}
	dir := store.ScratchDir("c16stream")
	defer os.RemoveAll(dir)
	in, out := filepath.Join(dir, "scenario.json"), filepath.Join(dir, "result.json")
	c := sc.Clone()
	c.Property, c.Batch = "C16", "stream"
	if err := os.WriteFile(in, core.MustJSON(c), 0o644); err != nil {
		core.Harnessf("stream: cannot write scenario: %v", err)
	}
	cmd := exec.Command(self, "replay", in)
	cmd.Env = append(os.Environ(), "VERIF_C16_STREAM_RESULT="+out)
	var stderr bytes.Buffer
	cmd.Stderr = &stderr
	cmd.Stdout = io.Discard
	runErr := cmd.Run()
	b, rerr := os.ReadFile(out)
	if rerr != nil {
		// No result: the child died. A Go panic or fatal error in one of the connection's own
		// goroutines is a violation; anything else is harness trouble.
		msg := stderr.String()
		if strings.Contains(msg, "HARNESS") || !(strings.Contains(msg, "panic:") || strings.Contains(msg, "fatal error:")) {
			core.Harnessf("stream: child process failed without a result (%v): %s", runErr, tail(msg, 3000))
		}
		site := core.PanicSite(msg, "oasis-core/go/")
		if site == "unknown" {
			site = core.PanicSite(msg, "github.com/")
		}
		kind := "panic"
		if strings.Contains(msg, "fatal error:") {
			kind = "fatal"
		}
		st.Event("child crashed")
		return sViol(kind, kind+" in "+site, "the process running the connection died (a panic in a goroutine of the connection cannot be recovered by its user):\n"+tail(msg, 6000)), true
	}
	var res childResult
	if err := json.Unmarshal(b, &res); err != nil {
		core.Harnessf("stream: child result does not parse: %v", err)
	}
	for k, v := range res.Counters {
		st.Add(k, v)
	}
	for _, ev := range res.Events {
		st.Event("%s", ev)
	}
	if res.Violation == nil {
		st.Sample(2, map[string]interface{}{"sessions": len(sc.Ops), "first": firstN(sc.Ops, 2)})
	}
	return res.Violation, res.Nontrivial
}

func tail(s string, n int) string {
	if len(s) > n {
		// Keep the head (panic message and first goroutine), which names the site.
		return s[:n] + "\n[...]"
	}
	return s
}

// ---------------------------------------------------------------------------------------------
// Bodies.

func payload(n int, tag byte) []byte {
	b := make([]byte, n)
	for i := range b {
		b[i] = tag + byte(i)
	}
	return b
}

// outBody is the request the harness sends through the connection (kind b, payload n), with the
// matching valid response.
func outBody(side string, b, n int) (req, rsp *protocol.Body) {
	if side == "host" {
		switch b % 4 {
		case 0:
			return &protocol.Body{RuntimePingRequest: &protocol.Empty{}}, &protocol.Body{Empty: &protocol.Empty{}}
		case 1:
			return &protocol.Body{RuntimeRPCCallRequest: &protocol.RuntimeRPCCallRequest{Request: payload(n, 1)}}, &protocol.Body{RuntimeRPCCallResponse: &protocol.RuntimeRPCCallResponse{Response: payload(n, 2)}}
		case 2:
			return &protocol.Body{RuntimeLocalRPCCallRequest: &protocol.RuntimeLocalRPCCallRequest{Request: payload(n, 3)}}, &protocol.Body{RuntimeLocalRPCCallResponse: &protocol.RuntimeLocalRPCCallResponse{Response: payload(n/2, 4)}}
		default:
			return &protocol.Body{RuntimeAbortRequest: &protocol.Empty{}}, &protocol.Body{RuntimeAbortResponse: &protocol.Empty{}}
		}
	}
	switch b % 3 {
	case 0:
		return &protocol.Body{HostLocalStorageGetRequest: &protocol.HostLocalStorageGetRequest{Key: payload(n%200, 5)}}, &protocol.Body{HostLocalStorageGetResponse: &protocol.HostLocalStorageGetResponse{Value: payload(n, 6)}}
	case 1:
		return &protocol.Body{HostLocalStorageSetRequest: &protocol.HostLocalStorageSetRequest{Key: payload(8, 7), Value: payload(n, 8)}}, &protocol.Body{HostLocalStorageSetResponse: &protocol.Empty{}}
	default:
		return &protocol.Body{HostIdentityRequest: &protocol.HostIdentityRequest{}}, &protocol.Body{HostIdentityResponse: &protocol.HostIdentityResponse{}}
	}
}

// inBody is a request the peer sends to the connection.
func inBody(side string, b, n int) *protocol.Body {
	// The peer of a host-side connection is the runtime (it sends Host* requests) and vice versa.
	other := "host"
	if side == "host" {
		other = "guest"
	}
	if b%8 == 7 {
		// A fully occupied body of some kind (deep structure for the corruption operators).
		var body protocol.Body
		v := reflect.ValueOf(&body).Elem()
		f := v.Field((b/8 + n) % v.NumField())
		p := reflect.New(f.Type().Elem())
		pv, _ := core.Guard(func() {
			FillValue(p.Elem(), core.NewRand(uint64(b*131+n)), 2)
			f.Set(p)
			_ = cbor.Marshal(&body)
		})
		if pv == nil {
			return &body
		}
	}
	req, _ := outBody(other, b, n)
	return req
}

func frame(body []byte) []byte {
	var l [4]byte
	binary.BigEndian.PutUint32(l[:], uint32(len(body)))
	return append(l[:], body...)
}

func msgFrame(id uint64, typ protocol.MessageType, body *protocol.Body) []byte {
	return frame(cbor.Marshal(&protocol.Message{ID: id, MessageType: typ, Body: *body}))
}

// ---------------------------------------------------------------------------------------------
// One session.

type callResult struct {
	body  *protocol.Body
	err   error
	panic interface{}
	stack string
}

type handler struct {
	mu       sync.Mutex
	ping     func()
	handled  int
	blocking int
}

// Handle implements protocol.Handler: it echoes a response; the mode is carried by the request.
func (h *handler) Handle(ctx context.Context, body *protocol.Body) (*protocol.Body, error) {
	h.mu.Lock()
	h.handled++
	h.mu.Unlock()
	var marker []byte
	switch {
	case body.HostLocalStorageGetRequest != nil:
		marker = body.HostLocalStorageGetRequest.Key
	case body.HostLocalStorageSetRequest != nil:
		marker = body.HostLocalStorageSetRequest.Key
	case body.RuntimeRPCCallRequest != nil:
		marker = body.RuntimeRPCCallRequest.Request
	case body.RuntimeLocalRPCCallRequest != nil:
		marker = body.RuntimeLocalRPCCallRequest.Request
	case body.RuntimeInfoRequest != nil:
		return &protocol.Body{RuntimeInfoResponse: &protocol.RuntimeInfoResponse{ProtocolVersion: version.RuntimeHostProtocol, RuntimeVersion: version.Version{Major: 1}}}, nil
	}
	switch {
	case bytes.HasPrefix(marker, []byte("ERR")):
		return nil, fmt.Errorf("verif: handler error")
	case bytes.HasPrefix(marker, []byte("BLK")):
		h.mu.Lock()
		h.blocking++
		h.mu.Unlock()
		h.ping()
		<-ctx.Done()
		return nil, ctx.Err()
	}
	return &protocol.Body{Empty: &protocol.Empty{}}, nil
}

type session struct {
	s               Session
	idx             int
	st              *core.Stats
	conn            protocol.Connection
	sc              *simConn
	h               *handler
	ready           bool // handshake done, connection ready
	desync          bool // a partial frame is pending: later frames are swallowed
	peerID          uint64
	broke           bool // a fault was delivered that may legitimately break the stream
	usedOK          int  // successful exchanges
	closedByHarness bool
	// pendingBytes are the delivered bytes that do not yet form complete frames (the script's own
	// bookkeeping of where the reader stands in the byte stream).
	pendingBytes []byte
	untracked    bool
}

// track records delivered bytes and reports whether the reader now stands inside a frame.
func (x *session) track(b []byte) {
	if x.untracked {
		return
	}
	x.pendingBytes = append(x.pendingBytes, b...)
	for len(x.pendingBytes) >= 4 {
		l := int(binary.BigEndian.Uint32(x.pendingBytes))
		if l > streamMaxFrame || len(x.pendingBytes) < 4+l {
			break
		}
		x.pendingBytes = x.pendingBytes[4+l:]
	}
}

// midFrame reports whether the bytes delivered so far end inside a frame (or inside a length
// prefix): whatever is sent next is taken for the rest of that frame.
func (x *session) midFrame() bool { return len(x.pendingBytes) > 0 }

// deliver hands bytes to the connection, sliced into reads, and waits until they are consumed.
// It returns false when the connection closed its side.
func (x *session) deliver(b []byte, split uint64) bool {
	pieces := [][]byte{b}
	if split != 0 && len(b) > 1 {
		r := core.NewRand(split)
		pieces = nil
		mode := r.Intn(4)
		for off := 0; off < len(b); {
			var n int
			switch mode {
			case 0:
				n = 1
			case 1:
				n = 1 + r.Intn(4)
			case 2:
				n = 1 + r.Intn(len(b))
			default:
				n = []int{3, 4, 5}[r.Intn(3)] // straddles the length prefix
			}
			if len(b) > 300 && n < len(b)/100 {
				n = len(b) / 100 // keep the number of hand-offs bounded for large frames
			}
			if off+n > len(b) {
				n = len(b) - off
			}
			pieces = append(pieces, b[off:off+n])
			off += n
		}
	}
	return x.deliverPieces(pieces)
}

func (x *session) deliverPieces(pieces [][]byte) bool {
	for _, p := range pieces {
		x.track(p)
		x.sc.change(func() { x.sc.in = append(x.sc.in, p...) })
		switch x.sc.peerWait(func() bool { return x.sc.closed || (len(x.sc.in) == 0 && x.sc.readerWaiting) || x.sc.depthTripped }, nil, streamWatchdog) {
		case "timeout":
			core.Harnessf("stream: the connection neither consumed %d delivered bytes nor closed within %v\n%s", len(p), streamWatchdog, allStacks())
		}
		var closed bool
		x.sc.mu.Lock()
		closed = x.sc.closed || x.sc.depthTripped
		x.sc.mu.Unlock()
		if closed {
			return false
		}
	}
	return true
}

// awaitFrame waits for one complete frame written by the connection. other aborts the wait.
func (x *session) awaitFrame(other <-chan struct{}) (*protocol.Message, string) {
	have := func() bool {
		if len(x.sc.out) < 4 {
			return x.sc.closed
		}
		l := int(binary.BigEndian.Uint32(x.sc.out))
		return len(x.sc.out) >= 4+l || x.sc.closed
	}
	switch x.sc.peerWait(have, other, streamWatchdog) {
	case "other":
		return nil, "other"
	case "timeout":
		return nil, "timeout"
	}
	x.sc.mu.Lock()
	defer x.sc.mu.Unlock()
	if len(x.sc.out) < 4 {
		return nil, "closed"
	}
	l := int(binary.BigEndian.Uint32(x.sc.out))
	if len(x.sc.out) < 4+l {
		return nil, "closed"
	}
	raw := x.sc.out[4 : 4+l]
	x.sc.out = x.sc.out[4+l:]
	var m protocol.Message
	if err := cbor.Unmarshal(raw, &m); err != nil {
		core.Harnessf("stream: the connection wrote a frame that does not decode: %v", err)
	}
	return &m, "frame"
}

// awaitRequestFrame is awaitFrame that skips stale response frames (replies to frames of earlier
// steps that the connection took for requests).
func (x *session) awaitRequestFrame(other <-chan struct{}) (*protocol.Message, string) {
	for {
		m, how := x.awaitFrame(other)
		if how != "frame" || m.MessageType != protocol.MessageResponse {
			return m, how
		}
		x.st.Inc("probe.stream.stale_reply_skipped")
	}
}

// grace gives an operation whose outcome is already decided a moment to complete (it completes
// within microseconds when it is going to complete at all).
func grace(done <-chan struct{}) bool {
	t := time.NewTimer(500 * time.Millisecond)
	defer t.Stop()
	select {
	case <-done:
		return true
	case <-t.C:
		return false
	}
}

func (x *session) closedNow() bool {
	x.sc.mu.Lock()
	defer x.sc.mu.Unlock()
	return x.sc.closed
}

// startCall runs conn.Call on its own goroutine (panics are caught and reported).
func (x *session) startCall(ctx context.Context, body *protocol.Body) (<-chan callResult, <-chan struct{}) {
	ch := make(chan callResult, 1)
	done := make(chan struct{})
	go func() {
		var r callResult
		r.panic, r.stack = core.Guard(func() { r.body, r.err = x.conn.Call(ctx, body) })
		ch <- r
		close(done)
	}()
	return ch, done
}

func (x *session) viol(kind, fp, format string, a ...interface{}) *core.Violation {
	return sViol(kind, fp, fmt.Sprintf("session %d (%s side, handshake %q): ", x.idx, x.s.Side, x.s.HS)+fmt.Sprintf(format, a...))
}

// awaitResult waits for the result of a call; a call that does not return is a hang.
func (x *session) awaitResult(ch <-chan callResult, what string) (callResult, *core.Violation) {
	t := time.NewTimer(streamHangLimit)
	defer t.Stop()
	select {
	case r := <-ch:
		if r.panic != nil {
			return r, x.viol("panic", "panic in "+core.PanicSite(r.stack, "oasis-core/go/"), "%s panicked: %v\n%s", what, r.panic, r.stack)
		}
		if r.err == nil && r.body == nil {
			return r, x.viol("call-no-result", "call-no-result", "%s returned neither a body nor an error", what)
		}
		return r, nil
	case <-t.C:
		dump := allStacks()
		if strings.Contains(dump, "host/protocol.(*connection)") {
			return callResult{}, x.viol("call-hang", "call-hang", "%s did not return within %v although its outcome was decided (response delivered, context cancelled or connection closed)\n%s", what, streamHangLimit, tail(dump, 5000))
		}
		core.Harnessf("stream: %s did not return within %v but no connection goroutine is involved\n%s", what, streamHangLimit, dump)
	}
	return callResult{}, nil
}

func allStacks() string {
	buf := make([]byte, 1<<20)
	n := runtime.Stack(buf, true)
	return string(buf[:n])
}

func sameBody(a, b *protocol.Body) bool {
	return bytes.Equal(cbor.Marshal(a), cbor.Marshal(b))
}

// run executes the session and returns a violation, if any.
func (x *session) run() *core.Violation {
	logger := logging.GetLogger("verif/c16/rhp")
	rtID := common.NewTestNamespaceFromSeed([]byte("verif/c16/stream"), common.NamespaceTest)
	x.sc = newSimConn()
	x.h = &handler{ping: x.sc.ping}
	conn, err := protocol.NewConnection(logger, rtID, x.h)
	if err != nil {
		core.Harnessf("stream: NewConnection: %v", err)
	}
	x.conn = conn
	x.st.Inc("probe.stream.session_" + x.s.Side)

	if v := x.handshake(); v != nil {
		return v
	}
	if v := x.settleEOF("handshake"); v != nil {
		return v
	}
	for i, stp := range x.s.Steps {
		if x.closedByHarness {
			break
		}
		x.st.Inc("fault.stream." + stp.K + "." + faultName(stp.F))
		var v *core.Violation
		switch stp.K {
		case "call":
			v = x.stepCall(i, stp)
		case "req":
			v = x.stepReq(i, stp)
		case "noise":
			v = x.stepNoise(i, stp)
		case "close":
			v = x.closeConn(fmt.Sprintf("step %d", i))
		case "peerclose":
			x.sc.change(func() { x.sc.inEOF = true })
			x.broke = true
			x.st.Event("s%d step %d peer closes", x.idx, i)
		default:
			core.Harnessf("stream: unknown step %q", stp.K)
		}
		if v == nil {
			// The connection notices an end of stream and closes its side.
			v = x.settleEOF(fmt.Sprintf("step %d", i))
		}
		if x.midFrame() {
			x.desync = true
		}
		if v != nil {
			return v
		}
		if x.depthTripped() {
			return x.viol("read-recursion-stream", "read-recursion rhp", "step %d (%s %s): after %d reads of the stream the connection's reader was %d or more call frames deep: the frame decoder recurses once per Read while a message is incomplete, so the call-stack depth is driven by how finely the peer slices a frame (a 64 MiB frame delivered a byte at a time needs more than the 1 GB a goroutine stack may grow to; exceeding that is a fatal, unrecoverable runtime error)", i, stp.K, stp.F, x.sc.reads, DepthLimit)
		}
	}
	// Final exchange: a connection whose stream was not broken must still work.
	if !x.closedByHarness && x.ready && !x.desync && !x.closedNow() {
		if v := x.stepCall(len(x.s.Steps), Step{K: "call", B: 0}); v != nil {
			v.Detail += "\n(this was the final valid exchange after the scripted faults)"
			return v
		}
		x.st.Inc("probe.stream.final_exchange_ok")
	}
	if !x.closedByHarness {
		if v := x.closeConn("end"); v != nil {
			return v
		}
	}
	// After Close nothing of the connection may be left running.
	return x.checkLeak()
}

// settleEOF waits, after the peer ended the stream, until the connection has closed its side.
func (x *session) settleEOF(when string) *core.Violation {
	x.sc.mu.Lock()
	eof, closed := x.sc.inEOF, x.sc.closed
	x.sc.mu.Unlock()
	if !eof || closed {
		return nil
	}
	if x.sc.peerWait(func() bool { return x.sc.closed }, nil, streamHangLimit) == "timeout" {
		return x.viol("no-close-on-eof", "no-close-on-eof", "%s: the peer closed the stream but the connection did not close its side within %v\n%s", when, streamHangLimit, tail(allStacks(), 4000))
	}
	return nil
}

func faultName(f string) string {
	if f == "" {
		return "none"
	}
	return f
}

func (x *session) depthTripped() bool {
	x.sc.mu.Lock()
	defer x.sc.mu.Unlock()
	return x.sc.depthTripped
}

// closeConn calls Close and expects it to return and later calls to be refused.
func (x *session) closeConn(when string) *core.Violation {
	x.closedByHarness = true
	done := make(chan callResult, 1)
	go func() {
		var r callResult
		r.panic, r.stack = core.Guard(func() { x.conn.Close() })
		done <- r
	}()
	t := time.NewTimer(streamHangLimit)
	defer t.Stop()
	select {
	case r := <-done:
		if r.panic != nil {
			return x.viol("panic", "panic in "+core.PanicSite(r.stack, "oasis-core/go/"), "Close (%s) panicked: %v\n%s", when, r.panic, r.stack)
		}
	case <-t.C:
		dump := allStacks()
		if strings.Contains(dump, "host/protocol.(*connection)") {
			return x.viol("close-hang", "close-hang", "Close (%s) did not return within %v: a goroutine of the connection is stuck\n%s", when, streamHangLimit, tail(dump, 6000))
		}
		core.Harnessf("stream: Close did not return but no connection goroutine is involved\n%s", dump)
	}
	x.st.Event("s%d close (%s)", x.idx, when)
	// A closed connection refuses calls with an error.
	ctx, cancel := context.WithCancel(context.Background())
	defer cancel()
	req, _ := outBody(x.s.Side, 0, 0)
	ch, _ := x.startCall(ctx, req)
	r, v := x.awaitResult(ch, "Call after Close")
	if v != nil {
		return v
	}
	if r.err == nil {
		return x.viol("call-after-close", "call-after-close", "Call on a closed connection returned a body instead of an error")
	}
	x.st.Inc("probe.stream.call_after_close_refused")
	return nil
}

// checkLeak looks for goroutines of the connection that are still running after Close.
func (x *session) checkLeak() *core.Violation {
	const frag = "runtime/host/protocol."
	deadline := time.Now().Add(5 * time.Second)
	first := time.Time{}
	for {
		dump := allStacks()
		if !strings.Contains(dump, frag) {
			x.st.Inc("probe.stream.no_goroutine_left_after_close")
			return nil
		}
		if first.IsZero() {
			first = time.Now()
		}
		if time.Now().After(deadline) {
			// Re-check once more after a pause before alarming.
			time.Sleep(500 * time.Millisecond)
			dump = allStacks()
			if !strings.Contains(dump, frag) {
				return nil
			}
			var leaked []string
			for _, g := range strings.Split(dump, "\n\n") {
				if strings.Contains(g, frag) {
					leaked = append(leaked, g)
				}
			}
			return x.viol("goroutine-leak", "goroutine-leak", "%d goroutine(s) of the connection are still running %v after Close returned:\n%s", len(leaked), time.Since(first).Round(time.Millisecond), tail(strings.Join(leaked, "\n\n"), 5000))
		}
		time.Sleep(5 * time.Millisecond)
	}
}

// handshake initialises the connection (InitGuest, or InitHost against the scripted peer).
func (x *session) handshake() *core.Violation {
	if x.s.Side == "guest" {
		pv, stack := core.Guard(func() { err := x.conn.InitGuest(x.sc); _ = err })
		if pv != nil {
			return x.viol("panic", "panic in "+core.PanicSite(stack, "oasis-core/go/"), "InitGuest panicked: %v\n%s", pv, stack)
		}
		x.ready = true
		return nil
	}
	ctx, cancel := context.WithCancel(context.Background())
	defer cancel()
	type hsRes struct {
		ver   *version.Version
		err   error
		panic interface{}
		stack string
	}
	resCh := make(chan callResult, 1)
	done := make(chan struct{})
	go func() {
		var r hsRes
		r.panic, r.stack = core.Guard(func() {
			r.ver, r.err = x.conn.InitHost(ctx, x.sc, &protocol.HostInfo{ConsensusBackend: "verif", ConsensusProtocolVersion: version.Version{Major: 7}, ConsensusChainContext: "verif-c16", LocalConfig: map[string]interface{}{"a": 1}})
		})
		cr := callResult{err: r.err, panic: r.panic, stack: r.stack}
		if r.ver != nil {
			cr.body = &protocol.Body{Empty: &protocol.Empty{}}
		}
		resCh <- cr
		close(done)
	}()
	hs := x.s.HS
	x.st.Inc("fault.stream.handshake." + faultName(hs))
	if hs == "garbage-before" {
		x.broke = true
		x.deliver(core.NewRand(x.s.Split^1).Bytes(37), x.s.Split)
	}
	m, how := x.awaitFrame(done)
	var good []byte
	if how == "frame" {
		if m.MessageType != protocol.MessageRequest || m.Body.RuntimeInfoRequest == nil {
			return x.viol("handshake-shape", "handshake-shape", "the first frame of a host-side connection is not a RuntimeInfoRequest: %+v", m)
		}
		good = msgFrame(m.ID, protocol.MessageResponse, &protocol.Body{RuntimeInfoResponse: &protocol.RuntimeInfoResponse{ProtocolVersion: version.RuntimeHostProtocol, RuntimeVersion: version.Version{Major: 0, Minor: 3}, Features: protocol.Features{KeyManagerStatusUpdates: true}}})
		id := m.ID
		switch hs {
		case "", "garbage-before":
			x.deliver(good, x.s.Split)
		case "dup":
			x.deliver(append(append([]byte{}, good...), good...), x.s.Split)
		case "wrong-id":
			x.deliver(msgFrame(id+7, protocol.MessageResponse, &protocol.Body{Empty: &protocol.Empty{}}), x.s.Split)
			x.deliver(good, x.s.Split)
		case "early-request":
			x.deliver(msgFrame(1000, protocol.MessageRequest, inBody("host", 0, 8)), x.s.Split)
			x.deliver(good, x.s.Split)
			if rm, how := x.awaitFrame(nil); how == "frame" {
				if rm.MessageType != protocol.MessageResponse || rm.ID != 1000 {
					return x.viol("response-shape", "response-shape", "the reply to a request sent during the handshake has id %d type %v", rm.ID, rm.MessageType)
				}
				x.st.Inc("probe.stream.early_request_answered")
			}
		case "wrong-body":
			x.deliver(msgFrame(id, protocol.MessageResponse, &protocol.Body{Empty: &protocol.Empty{}}), x.s.Split)
		case "wrong-version":
			v := version.RuntimeHostProtocol
			v.Major += 3
			x.deliver(msgFrame(id, protocol.MessageResponse, &protocol.Body{RuntimeInfoResponse: &protocol.RuntimeInfoResponse{ProtocolVersion: v}}), x.s.Split)
		case "error-body":
			x.deliver(msgFrame(id, protocol.MessageResponse, &protocol.Body{Error: &protocol.Error{Module: "verif", Code: 7, Message: "no"}}), x.s.Split)
		case "stall":
			cancel()
		case "close":
			x.sc.change(func() { x.sc.inEOF = true })
		case "corrupt":
			x.broke = true
			body, what, _ := MutateCBOR(good[4:], *x.s.HSMut)
			x.st.Event("s%d handshake corrupt: %s", x.idx, what)
			if x.deliver(frame(body), x.s.Split) && !grace(done) {
				// Neither answered nor broken: the caller gives up.
				cancel()
			}
		case "trunc":
			x.broke = true
			x.deliver(good[:len(good)/2], x.s.Split)
			x.sc.change(func() { x.sc.inEOF = true })
		case "len-over":
			if v := x.oversize(0xffffffff, "handshake"); v != nil {
				return v
			}
			cancel()
		case "ok-then-over", "ok-then-close", "ok-then-garbage":
			// A correct answer immediately followed by something that ends the connection's read
			// loop (an oversized length prefix, the peer hanging up, a frame that does not decode),
			// in the one order that has the caller still inside InitHost when the read loop ends:
			// InitHost is held at the point where it has accepted the answer and is about to mark
			// the connection ready, the terminating bytes are delivered, the read loop's cleanup
			// runs to its end, then InitHost is released.
			x.broke = true
			atReady, release, closed := make(chan struct{}), make(chan struct{}), make(chan struct{})
			var once1, once2 sync.Once
			verifhook.SetHandler(func(name string) {
				switch name {
				case "protocol.InitHost.beforeReady":
					once1.Do(func() { close(atReady); <-release })
				case "protocol.workerIncoming.closed":
					once2.Do(func() { close(closed) })
				}
			})
			x.deliver(good, x.s.Split)
			held := false
			select {
			case <-atReady:
				held = true
			case <-done:
			case <-time.After(streamWatchdog):
				verifhook.SetHandler(nil)
				core.Harnessf("stream: InitHost neither returned nor reached the point before the ready transition within %v\n%s", streamWatchdog, allStacks())
			}
			if held {
				switch hs {
				case "ok-then-over":
					x.deliver([]byte{0xff, 0xff, 0xff, 0xff}, 0)
				case "ok-then-close":
					x.sc.change(func() { x.sc.inEOF = true })
				default:
					x.deliver(frame([]byte{0xff, 0xff, 0xff}), 0)
				}
				select {
				case <-closed:
					x.st.Inc("probe.stream.read_loop_ended_inside_handshake")
				case <-time.After(streamWatchdog):
					verifhook.SetHandler(nil)
					close(release)
					core.Harnessf("stream: the read loop did not end within %v after %s\n%s", streamWatchdog, hs, allStacks())
				}
				close(release)
			}
			verifhook.SetHandler(nil)
		default:
			core.Harnessf("stream: unknown handshake fault %q", hs)
		}
	}
	expectOK := hs == "" || hs == "dup" || hs == "wrong-id" || hs == "early-request"
	if (!expectOK || x.midFrame()) && !grace(done) {
		// Nothing (more) is coming: the caller gives up.
		cancel()
	}
	if x.midFrame() {
		x.desync = true
	}
	r, v := x.awaitResult(resCh, "InitHost")
	if v != nil {
		return v
	}
	x.ready = r.err == nil
	if hs == "corrupt" || strings.HasPrefix(hs, "ok-then-") {
		x.st.Event("s%d handshake %q", x.idx, hs)
	} else {
		x.st.Event("s%d handshake %q ok=%v", x.idx, hs, x.ready)
	}
	if expectOK && !x.ready && how == "frame" && !x.desync {
		return x.viol("handshake-refused", "handshake-refused", "a correct handshake (variant %q) failed: %v", hs, r.err)
	}
	if (hs == "wrong-body" || hs == "wrong-version" || hs == "error-body" || hs == "stall" || hs == "close" || hs == "trunc") && x.ready {
		return x.viol("handshake-accepted", "handshake-accepted", "InitHost succeeded although the peer answered with %q", hs)
	}
	if x.ready {
		x.st.Inc("probe.stream.handshake_ok")
		if info, err := x.conn.GetInfo(); (err != nil || info == nil) && !strings.HasPrefix(hs, "ok-then-") {
			return x.viol("getinfo", "getinfo", "GetInfo after a successful handshake returned %v", err)
		}
	} else {
		x.st.Inc("probe.stream.handshake_failed")
		// A connection that is not ready refuses calls.
		req, _ := outBody("host", 0, 0)
		ch, _ := x.startCall(context.Background(), req)
		cr, v := x.awaitResult(ch, "Call on a connection whose handshake failed")
		if v != nil {
			return v
		}
		if cr.err == nil {
			return x.viol("call-not-ready", "call-not-ready", "Call succeeded on a connection whose handshake failed")
		}
	}
	return nil
}

// oversize sends a length prefix above the maximum frame size; if the connection goes on
// reading, it is fed a frame body of more than the maximum and must not buffer it.
func (x *session) oversize(length uint32, where string) *core.Violation {
	x.broke = true
	var l [4]byte
	binary.BigEndian.PutUint32(l[:], length)
	x.sc.change(func() { x.sc.frameBytesRead = 0 })
	if !x.deliver(l[:], 0) {
		x.st.Inc("probe.stream.oversize_prefix_rejected")
		return nil
	}
	// Still reading: stream one byte string of 80 MiB in 1 MiB pieces.
	x.untracked, x.desync = true, true
	total := streamMaxFrame + 16<<20
	hdr := head(2, uint64(total), 0)
	a0 := allocBytes()
	ok := x.deliver(hdr, 0)
	chunk := make([]byte, 1<<20)
	for sent := 0; ok && sent < total-1; sent += len(chunk) {
		ok = x.deliver(chunk, 0)
	}
	x.sc.mu.Lock()
	got := x.sc.frameBytesRead
	x.sc.mu.Unlock()
	if got > streamMaxFrame+4096 {
		return x.viol("frame-over-limit", "frame-over-limit", "%s: a frame whose length prefix declares %d bytes (above the %d MiB maximum message size) was not refused: the connection read %d MiB of it into memory (%d MiB allocated meanwhile)", where, length, streamMaxFrame>>20, got>>20, (allocBytes()-a0)>>20)
	}
	return nil
}

func allocBytes() uint64 {
	s := []metrics.Sample{{Name: "/gc/heap/allocs:bytes"}}
	metrics.Read(s)
	if s[0].Value.Kind() == metrics.KindUint64 {
		return s[0].Value.Uint64()
	}
	return 0
}

// stepCall: the harness calls through the connection; the peer answers with the step's fault.
func (x *session) stepCall(i int, stp Step) *core.Violation {
	req, rsp := outBody(x.s.Side, stp.B, stp.N)
	ctx, cancel := context.WithCancel(context.Background())
	defer cancel()
	what := fmt.Sprintf("step %d: Call(%s, %d-byte payload) answered with %q", i, req.Type(), stp.N, stp.F)
	if stp.F == "stall-write" && x.ready && !x.closedNow() {
		x.sc.change(func() { x.sc.writeStall = true })
	}
	if stp.F == "close-before" {
		x.sc.change(func() { x.sc.inEOF = true })
		x.broke = true
		if stp.N%2 == 0 && x.ready {
			// Deterministic variant: the connection has noticed the end of stream before the call.
			x.sc.peerWait(func() bool { return x.sc.closed }, nil, streamHangLimit)
		}
	}
	ch, done := x.startCall(ctx, req)
	expect := "error"
	if !x.ready {
		// Not ready: refused without touching the stream.
		r, v := x.awaitResult(ch, what)
		if v != nil {
			return v
		}
		if r.err == nil {
			return x.viol("call-not-ready", "call-not-ready", "%s: succeeded on a connection that is not ready", what)
		}
		return nil
	}
	if stp.F == "stall-write" {
		// The peer does not drain: the writer blocks in Write until the simulated deadline fires.
		how := x.sc.peerWait(func() bool { return x.sc.writerBlocked || x.sc.closed }, done, streamWatchdog)
		if how == "cond" && !x.closedNow() {
			x.st.Inc("probe.stream.writer_blocked_on_stalled_peer")
			x.sc.mu.Lock()
			armed := x.sc.deadlineArmed
			x.sc.mu.Unlock()
			if !armed {
				return x.viol("write-no-deadline", "write-no-deadline", "%s: the connection writes to a stalled peer without a write deadline (it would block forever)", what)
			}
			x.sc.change(func() { x.sc.deadlineFired = true })
			x.sc.peerWait(func() bool { return !x.sc.writerBlocked || x.sc.closed }, nil, streamWatchdog)
		}
		x.sc.change(func() { x.sc.writeStall = false })
		cancel()
		r, v := x.awaitResult(ch, what)
		if v != nil {
			return v
		}
		if r.err == nil {
			return x.viol("call-result", "call-result", "%s: returned a body although the request was never transmitted", what)
		}
		x.st.Event("s%d %s -> error", x.idx, what)
		return nil
	}
	m, how := x.awaitRequestFrame(done)
	switch how {
	case "timeout":
		core.Harnessf("stream: %s: no request frame, no result within %v\n%s", what, streamWatchdog, allStacks())
	case "other", "closed":
		// The call ended (or the connection closed) without a request frame: only legitimate when
		// the stream is already broken or closed.
		r, v := x.awaitResult(ch, what)
		if v != nil {
			return v
		}
		if r.err == nil {
			return x.viol("call-result", "call-result", "%s: returned a body although no request was transmitted", what)
		}
		if !x.broke && !x.closedNow() && !x.desync {
			return x.viol("call-refused", "call-refused", "%s: failed with %q on a ready connection whose stream was not broken", what, r.err)
		}
		if stp.F == "close-before" {
			x.st.Event("s%d %s done", x.idx, what)
		} else {
			x.st.Event("s%d %s -> error (stream broken)", x.idx, what)
		}
		return nil
	}
	if m.MessageType != protocol.MessageRequest || !sameBody(&m.Body, req) {
		return x.viol("request-shape", "request-shape", "%s: the transmitted frame is not the request (type %v body %s)", what, m.MessageType, m.Body.Type())
	}
	good := msgFrame(m.ID, protocol.MessageResponse, rsp)
	if x.desync {
		// Anything sent now is swallowed by the pending partial frame.
		stp.F = "stall"
	}
	switch stp.F {
	case "":
		x.deliver(good, stp.Split)
		expect = "ok"
	case "close-before":
		x.deliver(good, stp.Split)
		expect = "any"
	case "coalesce":
		extra := msgFrame(m.ID+99, protocol.MessageResponse, &protocol.Body{Empty: &protocol.Empty{}})
		x.deliver(append(append(append([]byte{}, extra...), good...), extra...), stp.Split)
		expect = "ok"
	case "trickle-large":
		big := msgFrame(m.ID, protocol.MessageResponse, &protocol.Body{RuntimeRPCCallResponse: &protocol.RuntimeRPCCallResponse{Response: payload(12000, 9)}})
		var pieces [][]byte
		for k := range big {
			pieces = append(pieces, big[k:k+1])
		}
		x.deliverPieces(pieces)
		expect = "any"
	case "error-body":
		x.deliver(msgFrame(m.ID, protocol.MessageResponse, &protocol.Body{Error: &protocol.Error{Module: "verif", Code: 3, Message: "failed"}}), stp.Split)
	case "wrong-id":
		x.deliver(msgFrame(m.ID+1000, protocol.MessageResponse, rsp), stp.Split)
		x.deliver(good, stp.Split)
		expect = "ok"
	case "id-max":
		x.deliver(msgFrame(^uint64(0), protocol.MessageResponse, rsp), stp.Split)
		x.deliver(good, stp.Split)
		expect = "ok"
	case "dup":
		x.deliver(append(append([]byte{}, good...), good...), stp.Split)
		expect = "ok"
	case "dup-many":
		// Many response frames with the same id, back to back in one piece: their handlers run
		// concurrently with the caller that consumes the first one.  All but one must be dropped
		// without leaving a handler blocked (Close must still return).
		var many []byte
		for k := 0; k < 8+stp.N%33; k++ {
			many = append(many, good...)
		}
		x.deliver(many, 0)
		expect = "ok"
	case "wrong-type":
		// The peer sends a request carrying the same id instead of the response, then the response.
		x.deliver(msgFrame(m.ID, protocol.MessageRequest, inBody(x.s.Side, stp.B, 4)), stp.Split)
		x.deliver(good, stp.Split)
		expect = "ok"
		if rm, how := x.awaitFrame(nil); how == "frame" && (rm.MessageType != protocol.MessageResponse || rm.ID != m.ID) {
			return x.viol("response-shape", "response-shape", "%s: the reply to the peer's request has id %d type %v", what, rm.ID, rm.MessageType)
		}
	case "bad-type":
		x.deliver(msgFrame(m.ID, protocol.MessageType(3+stp.N%250), rsp), stp.Split)
		x.deliver(good, stp.Split)
		expect = "ok"
	case "empty-body":
		x.deliver(msgFrame(m.ID, protocol.MessageResponse, &protocol.Body{}), stp.Split)
		expect = "any"
	case "two-bodies":
		x.deliver(msgFrame(m.ID, protocol.MessageResponse, &protocol.Body{Empty: &protocol.Empty{}, Error: &protocol.Error{Message: "both"}, RuntimeRPCCallResponse: &protocol.RuntimeRPCCallResponse{}}), stp.Split)
		expect = "any"
	case "corrupt":
		x.broke = true
		body, w, _ := MutateCBOR(good[4:], *stp.Mut)
		x.st.Event("s%d step %d corrupt: %s", x.idx, i, w)
		x.deliver(frame(body), stp.Split)
		expect = "any"
		if !x.closedNow() {
			// Not broken: the frame was ignored or taken; if the call is still waiting, it is released
			// by the real response.
			x.deliver(good, stp.Split)
		}
	case "len-short":
		x.broke = true
		f := append([]byte{}, good...)
		binary.BigEndian.PutUint32(f, uint32(len(good)-4-1-stp.N%(len(good)-4)))
		x.deliver(f, stp.Split)
		expect = "any"
		if !x.closedNow() {
			cancel()
		}
	case "len-long":
		x.broke, x.desync = true, true
		f := append([]byte{}, good...)
		binary.BigEndian.PutUint32(f, uint32(len(good)-4+1+stp.N))
		x.deliver(f, stp.Split)
		cancel()
	case "len-zero":
		x.broke = true
		x.deliver([]byte{0, 0, 0, 0}, stp.Split)
		if !x.closedNow() {
			x.deliver(good, stp.Split)
		}
		expect = "any"
	case "len-over":
		if v := x.oversize([]uint32{streamMaxFrame + 1, 0x7fffffff, 0x80000000, 0xffffffff}[stp.N%4], what); v != nil {
			return v
		}
		if !x.closedNow() {
			x.desync = true
			cancel()
		}
	case "trunc-close":
		x.broke = true
		x.deliver(good[:1+stp.N%(len(good)-1)], stp.Split)
		x.sc.change(func() { x.sc.inEOF = true })
	case "garbage":
		x.broke = true
		x.deliver(core.NewRand(stp.Split^7).Bytes(1+stp.N%300), stp.Split)
		expect = "any"
		if !x.closedNow() {
			x.desync = true
			cancel()
		}
	case "stall":
		cancel()
	default:
		core.Harnessf("stream: unknown call fault %q", stp.F)
	}
	if x.depthTripped() {
		cancel()
		_, v := x.awaitResult(ch, what)
		return v
	}
	if x.midFrame() {
		x.desync = true
	}
	if (expect != "ok" || x.desync) && !grace(done) {
		// No (further) valid response is coming: the caller gives up.
		cancel()
		if expect == "ok" {
			expect = "any"
		}
	}
	r, v := x.awaitResult(ch, what)
	if v != nil {
		return v
	}
	outcome := "error"
	if r.err == nil {
		outcome = "body"
	}
	switch expect {
	case "ok":
		if r.err != nil {
			return x.viol("call-refused", "call-refused", "%s: a valid response was delivered but Call failed: %v", what, r.err)
		}
		if !sameBody(r.body, rsp) {
			return x.viol("call-result", "call-result", "%s: Call returned %s, the peer sent %s", what, r.body.Type(), rsp.Type())
		}
		x.usedOK++
		x.st.Inc("probe.stream.exchange_ok")
	case "error":
		if r.err == nil {
			return x.viol("call-result", "call-result", "%s: Call returned a body (%s) although no valid response was delivered", what, r.body.Type())
		}
		if stp.F == "stall" || stp.F == "len-long" {
			x.st.Inc("probe.stream.call_cancelled_by_simulator")
		}
	}
	if stp.F == "stall" || stp.F == "error-body" || expect == "ok" {
		x.st.Event("s%d %s -> %s", x.idx, what, outcome)
	} else {
		x.st.Event("s%d %s done", x.idx, what)
	}
	return nil
}

// stepReq: the peer sends a request; the connection's handler answers.
func (x *session) stepReq(i int, stp Step) *core.Violation {
	if x.closedNow() || x.desync {
		return nil
	}
	x.peerID++
	id := 5000 + x.peerID
	body := inBody(x.s.Side, stp.B, stp.N)
	mark := func(prefix string) {
		switch {
		case body.HostLocalStorageGetRequest != nil:
			body.HostLocalStorageGetRequest.Key = []byte(prefix)
		case body.HostLocalStorageSetRequest != nil:
			body.HostLocalStorageSetRequest.Key = []byte(prefix)
		case body.RuntimeRPCCallRequest != nil:
			body.RuntimeRPCCallRequest.Request = []byte(prefix)
		case body.RuntimeLocalRPCCallRequest != nil:
			body.RuntimeLocalRPCCallRequest.Request = []byte(prefix)
		default:
			if x.s.Side == "host" {
				body = &protocol.Body{HostLocalStorageGetRequest: &protocol.HostLocalStorageGetRequest{Key: []byte(prefix)}}
			} else {
				body = &protocol.Body{RuntimeRPCCallRequest: &protocol.RuntimeRPCCallRequest{Request: []byte(prefix)}}
			}
		}
	}
	what := fmt.Sprintf("step %d: peer request %s with fault %q", i, body.Type(), stp.F)
	good := msgFrame(id, protocol.MessageRequest, body)
	expectReplies := 0
	switch stp.F {
	case "":
		x.deliver(good, stp.Split)
		expectReplies = 1
	case "dup-id":
		x.deliver(append(append([]byte{}, good...), good...), stp.Split)
		expectReplies = 2
	case "burst":
		var all []byte
		for k := 0; k < 20; k++ {
			all = append(all, msgFrame(id+uint64(k)*100000, protocol.MessageRequest, body)...)
		}
		x.deliver(all, stp.Split)
		expectReplies = 20
	case "handler-error":
		mark("ERR")
		x.deliver(msgFrame(id, protocol.MessageRequest, body), stp.Split)
		expectReplies = 1
	case "handler-block":
		// The handler blocks until its context is cancelled, which happens when the connection ends.
		mark("BLK")
		x.deliver(msgFrame(id, protocol.MessageRequest, body), stp.Split)
		if x.ready {
			x.sc.peerWait(func() bool { x.h.mu.Lock(); defer x.h.mu.Unlock(); return x.h.blocking > 0 || x.sc.closed }, nil, streamWatchdog)
			x.st.Inc("probe.stream.handler_blocked_until_close")
		}
	case "unknown-body":
		x.deliver(msgFrame(id, protocol.MessageRequest, &protocol.Body{}), stp.Split)
		expectReplies = 1
	case "two-bodies":
		x.deliver(msgFrame(id, protocol.MessageRequest, &protocol.Body{Empty: &protocol.Empty{}, RuntimePingRequest: &protocol.Empty{}, HostIdentityRequest: &protocol.HostIdentityRequest{}}), stp.Split)
		expectReplies = 1
	case "corrupt":
		x.broke = true
		b, w, _ := MutateCBOR(good[4:], *stp.Mut)
		x.st.Event("s%d step %d corrupt request: %s", x.idx, i, w)
		x.deliver(frame(b), stp.Split)
		expectReplies = -1
	case "len-over":
		v := x.oversize(0xfffffff0, what)
		if !x.closedNow() {
			x.desync = true
		}
		return v
	case "len-zero":
		x.broke = true
		x.deliver([]byte{0, 0, 0, 0}, stp.Split)
		expectReplies = -1
	case "garbage":
		x.broke = true
		if x.deliver(core.NewRand(stp.Split^9).Bytes(1+stp.N%300), stp.Split) {
			x.desync = !x.closedNow()
		}
		expectReplies = -1
	case "trunc-close":
		x.broke = true
		x.deliver(good[:1+stp.N%(len(good)-1)], stp.Split)
		x.sc.change(func() { x.sc.inEOF = true })
	default:
		core.Harnessf("stream: unknown request fault %q", stp.F)
	}
	if !x.ready && expectReplies > 0 {
		// The host side is still initialising (failed handshake): requests wait for readiness and
		// are then refused; the script does not wait for that.
		return nil
	}
	for k := 0; k < expectReplies; k++ {
		m, how := x.awaitFrame(nil)
		if how == "timeout" {
			return x.viol("no-response", "no-response", "%s: no response frame within %v (reply %d of %d)\n%s", what, streamWatchdog, k+1, expectReplies, tail(allStacks(), 4000))
		}
		if how != "frame" {
			if x.broke || x.closedNow() {
				return nil
			}
			return x.viol("no-response", "no-response", "%s: the connection closed instead of answering", what)
		}
		if m.MessageType != protocol.MessageResponse {
			return x.viol("response-shape", "response-shape", "%s: reply has message type %v", what, m.MessageType)
		}
		x.st.Inc("probe.stream.peer_request_answered")
	}
	if expectReplies == -1 && !x.closedNow() {
		// A corrupted request that did not break the stream may or may not have been answered:
		// drain what was written so that the next step starts clean.
		x.sc.peerWait(func() bool { return len(x.sc.in) == 0 && x.sc.readerWaiting || x.sc.closed }, nil, streamWatchdog)
		x.drainReplies()
	}
	x.st.Event("s%d %s done", x.idx, what)
	return nil
}

// drainReplies gives handler goroutines of already consumed requests a moment to write their
// replies, then discards what the connection wrote. Used only after corrupted requests, whose
// number of replies is not known to the script.
func (x *session) drainReplies() {
	last := -1
	for k := 0; k < 40; k++ {
		x.sc.mu.Lock()
		n := len(x.sc.out)
		x.sc.mu.Unlock()
		if n == last && k >= 4 {
			break
		}
		last = n
		time.Sleep(2 * time.Millisecond)
	}
	x.sc.mu.Lock()
	x.sc.out = nil
	x.sc.mu.Unlock()
}

// stepNoise: unsolicited frames that a correct connection ignores.
func (x *session) stepNoise(i int, stp Step) *core.Violation {
	if x.closedNow() || x.desync {
		return nil
	}
	var f []byte
	switch stp.F {
	case "response-without-request":
		f = msgFrame(900000+uint64(i), protocol.MessageResponse, &protocol.Body{Empty: &protocol.Empty{}})
	case "error-without-request":
		f = msgFrame(900000+uint64(i), protocol.MessageResponse, &protocol.Body{Error: &protocol.Error{Module: "x", Code: 1}})
	case "response-id-max":
		f = msgFrame(^uint64(0), protocol.MessageResponse, &protocol.Body{Empty: &protocol.Empty{}})
	case "bad-type":
		f = msgFrame(uint64(i), protocol.MessageType(7), &protocol.Body{Empty: &protocol.Empty{}})
	case "zero-type":
		f = msgFrame(uint64(i), protocol.MessageInvalid, &protocol.Body{Empty: &protocol.Empty{}})
	default:
		core.Harnessf("stream: unknown noise %q", stp.F)
	}
	x.deliver(f, stp.Split)
	if x.closedNow() {
		return x.viol("closed-on-noise", "closed-on-noise", "step %d: a well-formed but unsolicited frame (%s) made the connection close", i, stp.F)
	}
	x.st.Event("s%d step %d noise %s", x.idx, i, stp.F)
	return nil
}

// executeLocal runs the sessions of a scenario in this process.
func (StreamEngine) executeLocal(sc *core.Scenario, st *core.Stats) (*core.Violation, bool) {
	ok := 0
	a0 := allocBytes()
	maxDepth := 0
	for i, raw := range sc.Ops {
		var s Session
		if err := json.Unmarshal(raw, &s); err != nil {
			core.Harnessf("stream: bad session: %v", err)
		}
		x := &session{s: s, idx: i, st: st}
		var v *core.Violation
		t0 := time.Now()
		s0 := allocBytes()
		pv, stack := core.Guard(func() { v = x.run() })
		if used := allocBytes() - s0; v == nil && pv == nil && used > CallAllocLimit {
			// One connection lifecycle with frames of at most 70 KB allocated more than the bound:
			// confirm on a fresh connection before alarming.
			y := &session{s: s, idx: i, st: core.NewStats()}
			s1 := allocBytes()
			pv2, _ := core.Guard(func() { _ = y.run() })
			if again := allocBytes() - s1; pv2 == nil && again > CallAllocLimit {
				return sViol("alloc", "alloc rhp", fmt.Sprintf("session %d (%s side, handshake %q): the connection lifecycle allocated %d MiB (and %d MiB when repeated) although no frame of the script is larger than 70 KB (bound %d MiB)", i, s.Side, s.HS, used>>20, again>>20, CallAllocLimit>>20)), true
			}
		}
		if debugMeter && time.Since(t0) > 100*time.Millisecond {
			fmt.Fprintf(os.Stderr, "STREAM-SLOW session %d took %v: %s\n", i, time.Since(t0), raw)
		}
		if pv != nil {
			return sViol("panic", "panic in "+core.PanicSite(stack, "oasis-core/go/"), fmt.Sprintf("session %d: panic on the harness' goroutine inside the connection: %v\n%s", i, pv, stack)), true
		}
		if v != nil {
			return v, true
		}
		ok += x.usedOK
		if x.sc.maxDepth > maxDepth {
			maxDepth = x.sc.maxDepth
		}
		st.Add("probe.stream.bytes_read_by_connection", x.sc.bytesRead)
		st.Add("probe.stream.reads", int64(x.sc.reads))
		st.Add("probe.stream.write_deadlines_set", int64(x.sc.deadlinesSet))
	}
	alloc := allocBytes() - a0
	st.Inc("probe.stream.scenario_alloc_le_" + sizeBucket(alloc))
	st.Inc(fmt.Sprintf("probe.stream.deepest_read_callback_le_%d_frames", depthBucket(maxDepth)))
	return nil, ok >= 1
}
