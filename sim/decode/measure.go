package decode

import (
	"fmt"
	"io"
	"os"
	"runtime"
	"runtime/metrics"
	"time"

	"verif/sim/core"
)

// Bounds of one call at an untrusted boundary. The machine is shared and often heavily loaded, so
// the time bound is generous and an excess is re-measured (best of several fresh attempts) before
// it counts.
const (
	// CallTimeLimit is the wall-clock bound of one decode/verify/CheckTx call on an input of at
	// most a few hundred KiB.
	CallTimeLimit = 2 * time.Second
	// CallAllocLimit is the bound on bytes allocated on the heap by one call.
	CallAllocLimit = 256 << 20
	// CallStackLimit is the bound on the growth of goroutine stack memory caused by one call
	// (recursion driven by attacker-controlled nesting).
	CallStackLimit = 8 << 20
	remeasure      = 3
)

var debugMeter = os.Getenv("VERIF_DEBUG") != ""

// Meter measures calls into the code under test.
type Meter struct {
	samples []metrics.Sample
	// Slowest call and largest allocation seen (reach measurements; not part of the event log).
	MaxDur       time.Duration
	MaxDurWhat   string
	MaxAlloc     uint64
	MaxAllocWhat string
	MaxStack     uint64
	Calls        int64
}

// NewMeter creates a meter.
func NewMeter() *Meter {
	return &Meter{samples: []metrics.Sample{{Name: "/gc/heap/allocs:bytes"}, {Name: "/memory/classes/heap/stacks:bytes"}}}
}

func (m *Meter) read() (alloc, stacks uint64) {
	metrics.Read(m.samples)
	if m.samples[0].Value.Kind() == metrics.KindUint64 {
		alloc = m.samples[0].Value.Uint64()
	}
	if m.samples[1].Value.Kind() == metrics.KindUint64 {
		stacks = m.samples[1].Value.Uint64()
	}
	return
}

// Outcome of a measured call.
type Outcome struct {
	Panic interface{}
	Stack string
	Dur   time.Duration
	Alloc uint64
	Grow  uint64 // growth of stack memory
}

// once runs f once under a panic guard and measures it.
func (m *Meter) once(f func()) Outcome {
	a0, s0 := m.read()
	t0 := time.Now()
	pv, stack := core.Guard(f)
	d := time.Since(t0)
	a1, s1 := m.read()
	o := Outcome{Panic: pv, Stack: stack, Dur: d, Alloc: a1 - a0}
	if s1 > s0 {
		o.Grow = s1 - s0
	}
	return o
}

// onceFresh runs f on a fresh goroutine (fresh, small stack).
func (m *Meter) onceFresh(f func()) Outcome {
	ch := make(chan Outcome, 1)
	go func() { ch <- m.once(f) }()
	return <-ch
}

// Call runs f and judges it: a panic, or a time / allocation / stack excess that persists when
// re-measured on fresh attempts, yields a violation description (kind, detail). what names the
// call for the reach statistics; mk must return a fresh closure for every attempt (decoding
// targets are rebuilt so that attempts do not share state).
func (m *Meter) Call(what string, size int, mk func() func()) (kind, detail string, o Outcome) {
	m.Calls++
	o = m.once(mk())
	if o.Panic != nil {
		return "panic", fmt.Sprintf("%s panicked on a %d-byte input: %v\n%s", what, size, o.Panic, o.Stack), o
	}
	if debugMeter && (o.Alloc > 32<<20 || o.Dur > 200*time.Millisecond || o.Grow > 1<<20) {
		fmt.Fprintf(os.Stderr, "METER %s size=%d dur=%v alloc=%dMiB grow=%dKiB\n", what, size, o.Dur, o.Alloc>>20, o.Grow>>10)
	}
	if o.Dur > m.MaxDur {
		m.MaxDur, m.MaxDurWhat = o.Dur, what
	}
	if o.Alloc > m.MaxAlloc {
		m.MaxAlloc, m.MaxAllocWhat = o.Alloc, what
	}
	if o.Grow > m.MaxStack {
		m.MaxStack = o.Grow
	}
	if o.Dur <= CallTimeLimit && o.Alloc <= CallAllocLimit && o.Grow <= CallStackLimit {
		return "", "", o
	}
	// Re-measure: the best of several fresh attempts counts.
	best := o
	for i := 0; i < remeasure; i++ {
		// A collection empties the runtime's cache of free stack spans, so that stack growth of the
		// fresh goroutine is visible again in the stack memory statistic.
		runtime.GC()
		x := m.onceFresh(mk())
		if x.Panic != nil {
			return "panic", fmt.Sprintf("%s panicked on a %d-byte input (on re-measurement): %v\n%s", what, size, x.Panic, x.Stack), x
		}
		if x.Dur < best.Dur {
			best.Dur = x.Dur
		}
		if x.Alloc < best.Alloc {
			best.Alloc = x.Alloc
		}
		if x.Grow < best.Grow || i == 0 {
			// The first attempt ran on a goroutine whose stack may already have been grown by an
			// earlier call, so only fresh-goroutine attempts count for stack growth.
			best.Grow = x.Grow
		}
	}
	switch {
	case best.Alloc > CallAllocLimit:
		return "alloc", fmt.Sprintf("%s allocated %d MiB for a %d-byte input (bound %d MiB; best of %d attempts)", what, best.Alloc>>20, size, CallAllocLimit>>20, remeasure+1), best
	case best.Grow > CallStackLimit:
		return "stack", fmt.Sprintf("%s grew its goroutine stack by %d MiB on a %d-byte input (bound %d MiB; every one of %d fresh attempts): recursion depth is driven by the input", what, best.Grow>>20, size, CallStackLimit>>20, remeasure), best
	case best.Dur > CallTimeLimit:
		return "slow", fmt.Sprintf("%s took %v on a %d-byte input (bound %v; best of %d attempts)", what, best.Dur, size, CallTimeLimit, remeasure+1), best
	}
	return "", "", best
}

// Report writes the reach measurements of the meter.
func (m *Meter) Report(st *core.Stats, prefix string) {
	st.Add("probe."+prefix+".calls", m.Calls)
	// Maxima are reported through counters named by magnitude (counters are summed over workers).
	st.Inc(fmt.Sprintf("probe.%s.slowest_call_le_%s", prefix, durBucket(m.MaxDur)))
	st.Inc(fmt.Sprintf("probe.%s.largest_alloc_le_%s", prefix, sizeBucket(m.MaxAlloc)))
	st.Inc(fmt.Sprintf("probe.%s.largest_stack_growth_le_%s", prefix, sizeBucket(m.MaxStack)))
}

func durBucket(d time.Duration) string {
	for _, b := range []time.Duration{time.Millisecond, 10 * time.Millisecond, 100 * time.Millisecond, time.Second, 2 * time.Second, 10 * time.Second} {
		if d <= b {
			return b.String()
		}
	}
	return "inf"
}

func sizeBucket(n uint64) string {
	for _, b := range []uint64{64 << 10, 1 << 20, 8 << 20, 64 << 20, 256 << 20, 1 << 30} {
		if n <= b {
			if b >= 1<<20 {
				return fmt.Sprintf("%dMiB", b>>20)
			}
			return fmt.Sprintf("%dKiB", b>>10)
		}
	}
	return "inf"
}

// DepthLimit is the call-stack depth (frames) at a Read callback above which the depth is
// considered driven by the input. Ordinary decoding reaches a few dozen frames; the proof
// verifier is limited to 128 levels.
const DepthLimit = 4096

// DepthProbe wraps the reader handed to code under test and samples the depth of the call stack
// from which it is read. A decoder that recurses once per Read of an incomplete item shows up as
// a depth that grows with the number of reads (goroutine stacks are limited to 1 GB; exceeding
// that is a fatal, unrecoverable runtime error). Once tripped it stops feeding data.
type DepthProbe struct {
	R       io.Reader
	Reads   int
	Max     int
	Tripped bool
}

var errDepthTripped = fmt.Errorf("verif: depth probe tripped")

// Read implements io.Reader.
func (p *DepthProbe) Read(b []byte) (int, error) {
	p.Reads++
	if p.Reads&127 == 0 && !p.Tripped {
		var pcs [DepthLimit]uintptr
		d := runtime.Callers(0, pcs[:])
		if d > p.Max {
			p.Max = d
		}
		if d >= DepthLimit {
			p.Tripped = true
		}
	}
	if p.Tripped {
		return 0, errDepthTripped
	}
	return p.R.Read(b)
}

// AllocBytes returns the cumulative number of bytes allocated on the heap by the process.
func AllocBytes() uint64 { return allocBytes() }
