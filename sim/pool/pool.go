// Package pool is engine E4 (simpool): the roothash commitment pool driven by simulated
// committee nodes, outsiders and a lossy network, with round-processing calls (with and without
// the round timer having expired) and persistence round trips placed at arbitrary points.
//
// The oracle is an independent restatement of property C11 as a predicate over the set of
// commitments the pool ACCEPTED (verification and admission both returned nil), the discrepancy
// phase and the timeout flag. It never looks inside the pool.
package pool

import (
	"bytes"
	"context"
	"encoding/json"
	"fmt"
	"sort"
	"strings"

	"github.com/oasisprotocol/oasis-core/go/common"
	"github.com/oasisprotocol/oasis-core/go/common/cbor"
	"github.com/oasisprotocol/oasis-core/go/common/crypto/hash"
	"github.com/oasisprotocol/oasis-core/go/common/crypto/signature"
	memorySigner "github.com/oasisprotocol/oasis-core/go/common/crypto/signature/signers/memory"
	"github.com/oasisprotocol/oasis-core/go/common/node"
	registry "github.com/oasisprotocol/oasis-core/go/registry/api"
	"github.com/oasisprotocol/oasis-core/go/roothash/api/block"
	"github.com/oasisprotocol/oasis-core/go/roothash/api/commitment"
	"github.com/oasisprotocol/oasis-core/go/roothash/api/message"
	scheduler "github.com/oasisprotocol/oasis-core/go/scheduler/api"
	staking "github.com/oasisprotocol/oasis-core/go/staking/api"

	"verif/sim/core"
)

// Knobs of a run. Node ids: 0..Primary-1 are the primary workers in committee order; backup-only
// nodes follow (Primary..), then the outsiders. A backup id below Primary is a node with both roles.
type Knobs struct {
	Primary    int    `json:"primary"`
	Backups    []int  `json:"backups"`
	Outsiders  int    `json:"outsiders"`
	Stragglers int    `json:"stragglers"`
	Round      uint64 `json:"round"` // round of the last block; commitments are for Round+1
	TEE        bool   `json:"tee,omitempty"`
}

// Op is one symbolic step.
type Op struct {
	K string `json:"k"` // emit | proc | rt

	// emit: a node creates a commitment for the current round and hands it to the network.
	Node     int    `json:"n,omitempty"`    // emitting node (id modulo number of nodes)
	Self     bool   `json:"self,omitempty"` // the emitting node is the scheduler itself
	Rank     int    `json:"rank,omitempty"` // proposal of the scheduler with this rank in the round current at emission
	BadSched int    `json:"bs,omitempty"`   // >0: the named scheduler is the (bs-1)-th node that is not a primary worker
	Var      int    `json:"v,omitempty"`    // result variant (0 = the canonical result of that proposal)
	Fail     int    `json:"f,omitempty"`    // failure indication (1 unknown, 2 state unavailable)
	Flaw     string `json:"flaw,omitempty"` // round+ | round- | prev | forged | sig | msgs | rak | badfail | noroot
	Drop     bool   `json:"drop,omitempty"`
	Delay    int    `json:"delay,omitempty"` // delivered after this many further steps
	Dup      int    `json:"dup,omitempty"`   // >0: a second copy is delivered this many steps after the first

	// proc: the round is processed like the roothash application does.
	Timeout bool `json:"t,omitempty"`
	Retry   int  `json:"retry,omitempty"` // after a declared discrepancy: 0 retry without timeout, 1 retry with timeout, 2 no immediate retry
	Flush   bool `json:"flush,omitempty"` // the network delivers everything in flight first

	// rt: the pool is serialised and restored (it lives in consensus state).
	Mode string `json:"m,omitempty"` // cbor | json
}

// Engine implements core.Engine.
type Engine struct{}

const maxNodes = 16

var flaws = []string{"round+", "round-", "prev", "forged", "sig", "msgs", "rak", "badfail", "noroot"}

// ---- generation ----

type swarm struct {
	pDissent, pFail, pFlaw, pOutsider, pOff int // percent
	pDrop, pDup, maxDelay                   int
	pProc, pRT, pTimeout, pPart             int
}

func pick(r *core.Rand, xs ...int) int { return xs[r.Intn(len(xs))] }

// Generate implements core.Engine.
func (Engine) Generate(r *core.Rand, tier core.Tier) *core.Scenario {
	k := Knobs{Primary: r.Range(1, 5), Outsiders: 2, Round: uint64(r.Intn(8)), TEE: r.Chance(1, 6)}
	nb := r.Range(1, 5)
	overlap := 0
	if r.Chance(3, 5) {
		overlap = r.Range(1, min(k.Primary, nb))
		if r.Chance(1, 4) {
			overlap = min(k.Primary, nb)
		}
	}
	wp := r.Perm(k.Primary)
	for i := 0; i < overlap; i++ {
		k.Backups = append(k.Backups, wp[i])
	}
	for i := 0; i < nb-overlap; i++ {
		k.Backups = append(k.Backups, k.Primary+i)
	}
	bp := r.Perm(len(k.Backups))
	sh := make([]int, len(k.Backups))
	for i, j := range bp {
		sh[i] = k.Backups[j]
	}
	k.Backups = sh
	k.Stragglers = r.Range(0, 3)
	if !r.Chance(1, 10) {
		// The registry only admits allowances up to both group sizes; keep a few beyond that.
		k.Stragglers = min(k.Stragglers, k.Primary, nb)
	}
	members := k.Primary + nb - overlap
	nodes := members + k.Outsiders

	sw := swarm{
		pDissent: pick(r, 0, 0, 5, 15, 35), pFail: pick(r, 0, 0, 5, 15, 35), pFlaw: pick(r, 0, 0, 3, 10),
		pOutsider: pick(r, 0, 3, 10), pOff: pick(r, 0, 0, 10, 30),
		pDrop: pick(r, 0, 0, 5, 20), pDup: pick(r, 0, 0, 10, 30), maxDelay: pick(r, 0, 0, 2, 6),
		pProc: pick(r, 5, 20, 50, 100), pRT: pick(r, 0, 3, 10), pTimeout: pick(r, 0, 10, 30, 60), pPart: pick(r, 50, 80, 100, 100),
	}
	focus0 := 0
	if r.Chance(2, 5) {
		focus0 = r.Intn(k.Primary)
	}

	sc := &core.Scenario{Engine: "pool", Knobs: core.MustJSON(k)}
	add := func(op Op) { sc.Ops = append(sc.Ops, core.MustJSON(op)) }
	between := func() {
		if r.Chance(sw.pProc, 100) {
			add(Op{K: "proc", Timeout: r.Chance(sw.pTimeout, 200), Retry: r.Pick([]int{17, 1, 2})})
		}
		if r.Chance(sw.pRT, 100) {
			add(Op{K: "rt", Mode: []string{"cbor", "json"}[r.Intn(2)]})
		}
	}
	emit := func(nodeID int, self bool, rank int) {
		op := Op{K: "emit", Node: nodeID, Self: self, Rank: rank}
		if r.Chance(sw.pOff, 100) {
			op.Rank = r.Intn(k.Primary)
		}
		if r.Chance(sw.pOutsider, 100) {
			op.Node, op.Self = members+r.Intn(k.Outsiders), false
		}
		if r.Chance(sw.pDissent, 100) {
			op.Var = r.Range(1, 3)
		}
		if r.Chance(sw.pFail, 100) {
			op.Fail = r.Range(1, 2)
		}
		if r.Chance(sw.pFlaw, 100) {
			op.Flaw = flaws[r.Intn(len(flaws))]
		}
		if r.Chance(sw.pFlaw, 300) {
			op.BadSched = 1 + r.Intn(nodes-k.Primary)
		}
		op.Drop = r.Chance(sw.pDrop, 100)
		if sw.maxDelay > 0 {
			op.Delay = r.Intn(sw.maxDelay + 1)
		}
		if r.Chance(sw.pDup, 100) {
			op.Dup = 1 + r.Intn(sw.maxDelay+2)
		}
		add(op)
		between()
	}

	nw := r.Range(1, 5)
	if tier == core.Thorough {
		nw = r.Range(1, 8)
	}
	for w := 0; w < nw; w++ {
		focus := focus0
		if r.Chance(1, 5) {
			focus = r.Intn(k.Primary)
		}
		kind := r.Pick([]int{4, 3, 2, 1, 2})
		if w == 0 && r.Chance(1, 2) {
			kind = 0
		}
		var ids []int
		switch kind {
		case 0: // primary workers vote
			ids = r.Perm(k.Primary)
		case 1: // backup workers vote
			for _, j := range r.Perm(len(k.Backups)) {
				ids = append(ids, k.Backups[j])
			}
		case 2: // everybody votes
			ids = r.Perm(members)
		case 3: // schedulers of several ranks commit to their own proposals
			for _, rank := range r.Perm(k.Primary) {
				if r.Chance(2, 3) {
					emit(0, true, rank)
				}
			}
		case 4: // unstructured
			for i, n := 0, r.Range(1, 8); i < n; i++ {
				emit(r.Intn(nodes), r.Chance(1, 4), r.Intn(k.Primary))
			}
		}
		selfAt := -1
		if len(ids) > 0 && r.Chance(4, 5) {
			selfAt = r.Intn(len(ids))
		}
		for i, id := range ids {
			if i == selfAt {
				emit(0, true, focus)
			}
			if r.Chance(sw.pPart, 100) {
				emit(id, false, focus)
			}
		}
		if r.Chance(9, 10) {
			add(Op{K: "proc", Flush: r.Chance(7, 10), Timeout: r.Chance(sw.pTimeout, 100), Retry: r.Pick([]int{17, 1, 2})})
		}
		if r.Chance(1, 3) {
			add(Op{K: "proc", Flush: r.Chance(1, 2), Timeout: true, Retry: r.Pick([]int{17, 1, 2})})
		}
	}
	if r.Chance(4, 5) {
		add(Op{K: "proc", Flush: true})
		add(Op{K: "proc", Timeout: true})
	}
	return sc
}

// Simplify implements core.Simplifier: remove network faults, flaws and the TEE requirement.
func (Engine) Simplify(sc *core.Scenario) []*core.Scenario {
	var out []*core.Scenario
	mod := func(f func(*Op) bool) {
		c := sc.Clone()
		changed := false
		for i, raw := range c.Ops {
			var op Op
			if json.Unmarshal(raw, &op) != nil {
				return
			}
			if f(&op) {
				changed = true
				c.Ops[i] = core.MustJSON(op)
			}
		}
		if changed {
			out = append(out, c)
		}
	}
	mod(func(o *Op) bool {
		ch := o.Delay != 0 || o.Dup != 0 || o.Drop
		o.Delay, o.Dup, o.Drop = 0, 0, false
		return ch
	})
	mod(func(o *Op) bool { ch := o.Dup != 0; o.Dup = 0; return ch })
	mod(func(o *Op) bool { ch := o.Delay != 0; o.Delay = 0; return ch })
	mod(func(o *Op) bool { ch := o.K == "proc" && o.Retry != 0; o.Retry = 0; return ch })
	mod(func(o *Op) bool { ch := o.K == "proc" && o.Flush; o.Flush = false; return ch })
	var k Knobs
	if json.Unmarshal(sc.Knobs, &k) == nil {
		if k.TEE {
			k2 := k
			k2.TEE = false
			c := sc.Clone()
			c.Knobs = core.MustJSON(k2)
			out = append(out, c)
		}
		if k.Round != 0 {
			k2 := k
			k2.Round = 0
			c := sc.Clone()
			c.Knobs = core.MustJSON(k2)
			out = append(out, c)
		}
	}
	return out
}

// ---- fixtures shared by all runs of a process (pure functions of their inputs) ----

var (
	chainContext string
	runtimeID    common.Namespace
	signers      []signature.Signer
	raks         []signature.Signer
	pubIndex     = map[signature.PublicKey]int{}
	emptyMsgs    hash.Hash
	emptyInMsgs  hash.Hash
	oneMessage   = []message.Message{{Staking: &message.StakingMessage{Transfer: &staking.Transfer{}}}}
	blockCache   = map[uint64]*block.Block{}
	commitCache  = map[commitKey]*commitment.ExecutorCommitment{}
)

func fixtures() {
	if len(signers) == 0 {
		h := hash.NewFromBytes([]byte("verif: C11 commitment pool simulation"))
		chainContext = h.String()
		if err := runtimeID.UnmarshalHex("8000000000000000c11cc11cc11cc11cc11cc11cc11cc11cc11cc11cc11cc11c"); err != nil {
			core.Harnessf("pool: runtime id: %v", err)
		}
		for i := 0; i < maxNodes; i++ {
			s := memorySigner.NewTestSigner(fmt.Sprintf("verif C11 node %d", i))
			signers = append(signers, s)
			pubIndex[s.Public()] = i
			raks = append(raks, memorySigner.NewTestSigner(fmt.Sprintf("verif C11 rak %d", i)))
		}
		emptyMsgs = message.MessagesHash(nil)
		emptyInMsgs = message.InMessagesHash(nil)
	}
	// The chain context is process-global and other engines use their own.
	signature.UnsafeResetChainContext()
	signature.SetChainContext(chainContext)
}

func lastBlock(round uint64) *block.Block {
	if b, ok := blockCache[round]; ok {
		return b
	}
	b := block.NewGenesisBlock(runtimeID, 0)
	b.Header.Round = round
	b.Header.StateRoot = hash.NewFromBytes([]byte(fmt.Sprintf("state after round %d", round)))
	if len(blockCache) > 4096 {
		blockCache = map[uint64]*block.Block{}
	}
	blockCache[round] = b
	return b
}

// msg is a commitment as created by its sender: everything is fixed at emission.
type msg struct {
	node, sched int    // node ids; sched may be any node (a non-worker is an invalid scheduler)
	round       uint64 // last block round at emission
	variant     int
	fail        int
	flaw        string
	tee         bool
}

type commitKey msg

// resultHeader is the result claimed by a commitment.
func resultHeader(m msg) commitment.ComputeResultsHeader {
	blk := lastBlock(m.round)
	h := commitment.ComputeResultsHeader{Round: blk.Header.Round + 1, PreviousHash: blk.Header.EncodedHash()}
	switch m.flaw {
	case "round+":
		h.Round++
	case "round-":
		h.Round--
	case "prev":
		h.PreviousHash = hash.NewFromBytes([]byte("some other block"))
	}
	if m.fail != 0 && m.flaw != "badfail" {
		return h
	}
	io := hash.NewFromBytes([]byte(fmt.Sprintf("io root of proposal %d", m.sched)))
	state := hash.NewFromBytes([]byte(fmt.Sprintf("state root of proposal %d", m.sched)))
	msgs, inMsgs := emptyMsgs, emptyInMsgs
	switch m.variant {
	case 1:
		state = hash.NewFromBytes([]byte(fmt.Sprintf("another state root of proposal %d", m.sched)))
	case 2:
		h.InMessagesCount = 10
	case 3:
		io = hash.NewFromBytes([]byte(fmt.Sprintf("another io root of proposal %d", m.sched)))
	}
	h.IORoot, h.StateRoot, h.MessagesHash, h.InMessagesHash = &io, &state, &msgs, &inMsgs
	if m.flaw == "noroot" {
		h.StateRoot = nil
	}
	return h
}

// build creates the signed commitment for a message (memoised; signing is deterministic).
func build(m msg) *commitment.ExecutorCommitment {
	if c, ok := commitCache[commitKey(m)]; ok {
		cp := *c
		return &cp
	}
	ec := &commitment.ExecutorCommitment{
		NodeID: signers[m.node].Public(),
		Header: commitment.ExecutorCommitmentHeader{
			SchedulerID: signers[m.sched].Public(),
			Header:      resultHeader(m),
		},
	}
	switch m.fail {
	case 1:
		ec.Header.Failure = commitment.FailureUnknown
	case 2:
		ec.Header.Failure = commitment.FailureStateUnavailable
	}
	if m.fail == 0 && (m.tee || m.flaw == "rak") {
		sig, err := signature.Sign(raks[m.node], commitment.ComputeResultsHeaderSignatureContext, cbor.Marshal(ec.Header.Header))
		if err != nil {
			core.Harnessf("pool: RAK signing: %v", err)
		}
		raw := sig.Signature
		if m.flaw == "rak" {
			raw[3] ^= 0x40
		}
		ec.Header.RAKSignature = &raw
	}
	if m.flaw == "msgs" && m.fail == 0 {
		ec.Messages = oneMessage
	}
	signer := signers[m.node]
	if m.flaw == "forged" {
		// Signed by somebody else in the name of the node.
		signer = signers[maxNodes-1]
	}
	sig, err := ec.Header.Sign(signer, runtimeID)
	if err != nil {
		core.Harnessf("pool: signing: %v", err)
	}
	ec.Signature = *sig
	if m.flaw == "sig" {
		ec.Signature[7] ^= 0x10
	}
	if len(commitCache) > 300000 {
		commitCache = map[commitKey]*commitment.ExecutorCommitment{}
	}
	commitCache[commitKey(m)] = ec
	cp := *ec
	return &cp
}

// resultKey is the harness's own identity of a claimed result: two votes are for exactly the
// same result iff every field of the result header is equal.
func resultKey(h *commitment.ComputeResultsHeader) string {
	p := func(x *hash.Hash) string {
		if x == nil {
			return "-"
		}
		return x.Hex()
	}
	return fmt.Sprintf("%d/%s/%s/%s/%s/%s/%d", h.Round, h.PreviousHash.Hex(), p(h.IORoot), p(h.StateRoot), p(h.MessagesHash), p(h.InMessagesHash), h.InMessagesCount)
}

type nodeLookup struct{}

func (nodeLookup) Node(_ context.Context, id signature.PublicKey) (*node.Node, error) {
	i, ok := pubIndex[id]
	if !ok {
		return nil, fmt.Errorf("no such node")
	}
	return &node.Node{
		Versioned: cbor.NewVersioned(node.LatestNodeDescriptorVersion),
		ID:        id,
		Runtimes: []*node.Runtime{{
			ID: runtimeID,
			Capabilities: node.Capabilities{TEE: &node.CapabilityTEE{
				Hardware: node.TEEHardwareIntelSGX, RAK: raks[i].Public(), Attestation: []byte("attestation"),
			}},
		}},
	}, nil
}

// ---- the reference rule ----

type vote struct {
	node int
	fail bool
	key  string
}

// roundModel is what the harness knows about a round: the accepted votes per proposal, which
// schedulers committed, and whether discrepancy resolution has started.
type roundModel struct {
	round    uint64         // round being decided
	disc     bool           // discrepancy resolution has been started
	votes    map[int][]vote // accepted votes per proposal (scheduler = primary worker index)
	own      map[int]string // result of the scheduler's own accepted commitment
	offered  map[int]bool   // scheduler validly offered its own commitment before discrepancy resolution
	accepted int
	log      []string
}

func newRoundModel(round uint64) *roundModel {
	return &roundModel{round: round, votes: map[int][]vote{}, own: map[int]string{}, offered: map[int]bool{}}
}

type world struct {
	k         Knobs
	st        *core.Stats
	members   int
	nodes     int
	workers   []int
	isBackup  []bool
	isWorker  []bool
	committee *scheduler.Committee
	rt        *registry.Runtime
	pool      *commitment.Pool
	lastRound uint64 // round of the last block
	m         *roundModel

	now          int
	seq          int
	queue        []*flight
	maxDelivered int

	acceptedTotal, procCalls, rounds int
}

type flight struct {
	m    msg
	due  int
	seq  int
	copy int
}

func (w *world) rank(worker int) int {
	return int((w.m.round + uint64(worker)) % uint64(w.k.Primary))
}

func (w *world) workerWithRank(rank int) int {
	p := uint64(w.k.Primary)
	return int((uint64(rank)%p + p - w.m.round%p) % p)
}

// bestRank returns the best-ranked scheduler among the given set (sorted scan; no map order dependence).
func (w *world) bestOf(has func(int) bool) (int, bool) {
	best, ok := -1, false
	for i := 0; i < w.k.Primary; i++ {
		if has(i) && (!ok || w.rank(i) < w.rank(best)) {
			best, ok = i, true
		}
	}
	return best, ok
}

// tally counts, among the given nodes, the distinct nodes with an accepted vote for exactly key,
// the distinct nodes with an accepted failure indication, and whether any accepted vote carries a
// different result.
func (w *world) tally(proposal int, in []bool, key string) (agree, fails int, dissent bool) {
	a, f := map[int]bool{}, map[int]bool{}
	for _, v := range w.m.votes[proposal] {
		if !in[v.node] {
			continue
		}
		switch {
		case v.fail:
			f[v.node] = true
		case v.key == key:
			a[v.node] = true
		default:
			dissent = true
		}
	}
	return len(a), len(f), dissent
}

func viol(kind, extra, detail string) *core.Violation {
	fp := kind
	if extra != "" {
		fp += " [" + extra + "]"
	}
	return &core.Violation{Property: "C11", Kind: kind, Fingerprint: fp, Detail: detail}
}

func (w *world) describe() string {
	var b strings.Builder
	fmt.Fprintf(&b, "primary=%d backups=%v stragglers=%d round=%d discrepancy-phase=%v;", w.k.Primary, w.k.Backups, w.k.Stragglers, w.m.round, w.m.disc)
	for i := 0; i < w.k.Primary; i++ {
		if len(w.m.votes[i]) == 0 && !w.m.offered[i] {
			continue
		}
		fmt.Fprintf(&b, " proposal of worker %d (rank %d", i, w.rank(i))
		if _, ok := w.m.own[i]; ok {
			b.WriteString(", committed")
		}
		b.WriteString("):")
		for _, v := range w.m.votes[i] {
			switch {
			case v.fail:
				fmt.Fprintf(&b, " n%d=failure", v.node)
			case v.key == w.m.own[i]:
				fmt.Fprintf(&b, " n%d=agree", v.node)
			default:
				fmt.Fprintf(&b, " n%d=other", v.node)
			}
		}
		b.WriteString(";")
	}
	return b.String()
}

func outcomeName(err error) string {
	switch err {
	case nil:
		return "finalized"
	case commitment.ErrStillWaiting:
		return "waiting"
	case commitment.ErrDiscrepancyDetected:
		return "discrepancy"
	case commitment.ErrNoSchedulerCommitment:
		return "failed-no-scheduler-commitment"
	case commitment.ErrBadSchedulerCommitment:
		return "failed-bad-scheduler-commitment"
	case commitment.ErrInsufficientVotes:
		return "failed-insufficient-votes"
	}
	return "other"
}

// deliver hands one commitment to the consensus layer the way the roothash application does:
// verification first, then admission to the pool.
func (w *world) deliver(f *flight) *core.Violation {
	m := f.m
	st := w.st
	if f.seq < w.maxDelivered && f.copy == 0 {
		st.Inc("fault.reorder")
	}
	if f.seq > w.maxDelivered {
		w.maxDelivered = f.seq
	}
	if f.copy > 0 {
		st.Inc("fault.duplicate")
	}
	ec := build(m)
	var err error
	pv, stack := core.Guard(func() {
		err = commitment.VerifyExecutorCommitment(context.Background(), lastBlock(w.lastRound), w.rt, w.committee.ValidFor, ec, nil, nodeLookup{})
		if err == nil {
			err = w.pool.AddVerifiedExecutorCommitment(w.committee, ec)
		}
	})
	if pv != nil {
		return viol("panic", "admission in "+core.PanicSite(stack, "oasis-core/go/roothash"), fmt.Sprintf("admitting a commitment panicked: %v (%s)\n%s", pv, w.describe(), stack))
	}
	accepted := err == nil
	errs := "accepted"
	if err != nil {
		errs = err.Error()
	}
	st.Event("deliver node=%d sched=%d round=%d variant=%d fail=%d flaw=%q -> %s", m.node, m.sched, m.round+1, m.variant, m.fail, m.flaw, errs)

	member := m.node < w.members
	schedIsWorker := m.sched < w.k.Primary
	current := m.round == w.lastRound
	own := m.node == m.sched
	wellFormed := m.flaw == "" && current && m.tee == w.k.TEE
	valid := wellFormed && member && schedIsWorker && !(own && m.fail != 0)

	// Probes.
	switch {
	case !current:
		st.Inc("probe.stale_round_delivered")
	case m.flaw == "round+" || m.flaw == "round-" || m.flaw == "prev":
		if !accepted {
			st.Inc("probe.wrong_round_rejected")
		}
	}
	if !member && !accepted {
		st.Inc("probe.non_member_rejected")
	}
	if (m.flaw == "forged" || m.flaw == "sig") && !accepted {
		st.Inc("probe.bad_signature_rejected")
	}
	if wellFormed && own && m.fail != 0 && !accepted {
		st.Inc("probe.scheduler_failure_rejected")
	}
	if wellFormed && member && !schedIsWorker && !accepted {
		st.Inc("probe.invalid_scheduler_rejected")
	}

	// Non-members never count: their commitments are not admitted. Likewise a commitment that
	// was not signed by the member it names.
	if accepted && !member {
		return viol("non-member-accepted", "", fmt.Sprintf("a commitment from node %d, which is not a committee member, was accepted (%s)", m.node, w.describe()))
	}
	if accepted && (m.flaw == "forged" || m.flaw == "sig") {
		return viol("forged-accepted", m.flaw, fmt.Sprintf("a commitment in the name of member %d with an invalid signature (%s) was accepted (%s)", m.node, m.flaw, w.describe()))
	}

	if valid && own && m.fail == 0 && !w.m.disc {
		w.m.offered[m.sched] = true
	}
	if !accepted {
		if valid {
			prior := false
			for _, v := range w.m.votes[m.sched] {
				if v.node == m.node {
					prior = true
				}
			}
			switch best, ok := w.bestOf(func(i int) bool { _, c := w.m.own[i]; return c }); {
			case prior:
				st.Inc("probe.duplicate_rejected")
			case w.m.disc:
				st.Inc("probe.rejected_during_resolution")
			case ok && w.rank(m.sched) > w.rank(best):
				st.Inc("probe.worse_rank_rejected")
			default:
				st.Inc("probe.valid_rejected_other")
			}
		}
		w.m.log = append(w.m.log, fmt.Sprintf("x%d.%d", m.node, m.sched))
		return nil
	}

	// Accepted.
	w.acceptedTotal++
	w.m.accepted++
	st.Inc("probe.commitment_accepted")
	if !schedIsWorker {
		// Cannot be anybody's proposal; it can only show up as an unknown finalized proposal.
		st.Inc("probe.accepted_for_invalid_scheduler")
		return nil
	}
	hdr := ec.Header.Header
	v := vote{node: m.node, fail: m.fail != 0, key: resultKey(&hdr)}
	for _, p := range w.m.votes[m.sched] {
		if p.node == m.node {
			st.Inc("probe.second_vote_accepted")
		}
	}
	if own && !v.fail {
		if best, ok := w.bestOf(func(i int) bool { _, c := w.m.own[i]; return c }); ok && w.rank(m.sched) < w.rank(best) {
			st.Inc("probe.rank_takeover")
		}
		if _, ok := w.m.own[m.sched]; !ok {
			w.m.own[m.sched] = v.key
		}
	}
	w.m.votes[m.sched] = append(w.m.votes[m.sched], v)
	if w.isBackup[m.node] && !w.m.disc {
		st.Inc("probe.backup_vote_before_discrepancy")
	}
	if w.isBackup[m.node] && w.isWorker[m.node] {
		st.Inc("probe.vote_from_node_with_both_roles")
	}
	if v.fail {
		st.Inc("probe.failure_vote_accepted")
	}
	w.m.log = append(w.m.log, fmt.Sprintf("a%d.%d.%d.%d", m.node, m.sched, m.variant, m.fail))
	return nil
}

func (w *world) deliverDue(all bool) *core.Violation {
	for {
		bi := -1
		for i, f := range w.queue {
			if !all && f.due > w.now {
				continue
			}
			if bi < 0 {
				bi = i
				continue
			}
			b := w.queue[bi]
			if f.due < b.due || (f.due == b.due && (f.seq < b.seq || (f.seq == b.seq && f.copy < b.copy))) {
				bi = i
			}
		}
		if bi < 0 {
			return nil
		}
		f := w.queue[bi]
		w.queue = append(w.queue[:bi], w.queue[bi+1:]...)
		if v := w.deliver(f); v != nil {
			return v
		}
	}
}

// processOnce makes one ProcessCommitments call and judges its result against the rule.
func (w *world) processOnce(timeout bool) (*core.Violation, error) {
	st := w.st
	m := w.m
	P, S, NB := w.k.Primary, w.k.Stragglers, len(w.k.Backups)
	committed := func(i int) bool { _, ok := m.own[i]; return ok }

	// What the rule fixes before looking at the pool's answer.
	top, hasTop := w.bestOf(committed)
	mustFinalize, because := false, ""
	var tAgree, tFails int
	var tDissent bool
	if hasTop {
		switch m.disc {
		case false:
			tAgree, tFails, tDissent = w.tally(top, w.isWorker, m.own[top])
			if !tDissent && tFails <= S && tAgree >= P-S {
				mustFinalize = true
				because = fmt.Sprintf("%d of %d primary workers voted for the result of the best-ranked committed scheduler (worker %d), none for another result, %d indicated failure, allowed stragglers %d", tAgree, P, top, tFails, S)
			}
		case true:
			tAgree, tFails, tDissent = w.tally(top, w.isBackup, m.own[top])
			if 2*tAgree > NB {
				mustFinalize = true
				because = fmt.Sprintf("%d of %d backup workers voted for the result of the scheduler under resolution (worker %d)", tAgree, NB, top)
			}
		}
	}

	var sc *commitment.SchedulerCommitment
	var err error
	pv, stack := core.Guard(func() {
		sc, err = w.pool.ProcessCommitments(w.committee, uint16(S), timeout)
	})
	if pv != nil {
		return viol("panic", "processing in "+core.PanicSite(stack, "oasis-core/go/roothash"), fmt.Sprintf("processing the round panicked: %v (%s)\n%s", pv, w.describe(), stack)), nil
	}
	w.procCalls++
	out := outcomeName(err)
	phase := "detection"
	if m.disc {
		phase = "resolution"
	}
	st.Event("process timeout=%v phase=%s -> %s", timeout, phase, out)
	st.Inc("probe.outcome_" + out)
	m.log = append(m.log, fmt.Sprintf("p%v:%s", timeout, out))
	ctx := fmt.Sprintf("timeout=%v, outcome %s; %s", timeout, out, w.describe())

	if timeout && hasTop && !m.disc && tAgree+tFails < P {
		st.Inc("probe.timeout_with_stragglers")
	}

	switch err {
	case nil:
		if sc == nil || sc.Commitment == nil {
			return viol("finalized-unknown-proposal", phase, "the round finalized without a scheduler commitment; "+ctx), err
		}
		ec := sc.Commitment
		ch, known := pubIndex[ec.Header.SchedulerID]
		hdr := ec.Header.Header
		key := resultKey(&hdr)
		if !known || ch >= P || !ec.NodeID.Equal(ec.Header.SchedulerID) || ec.IsIndicatingFailure() || !committed(ch) || m.own[ch] != key {
			return viol("finalized-unknown-proposal", phase, "the finalized result is not the accepted own commitment of a scheduler of this round; "+ctx), err
		}
		// A lower-priority proposal is never preferred over a committed higher-priority one.
		if better, ok := w.bestOf(func(i int) bool { return committed(i) || m.offered[i] }); ok && w.rank(better) < w.rank(ch) {
			return viol("finalized-worse-rank", phase, fmt.Sprintf("the proposal of worker %d (rank %d) was finalized although worker %d (rank %d) had committed; %s", ch, w.rank(ch), better, w.rank(better), ctx)), err
		}
		switch m.disc {
		case false:
			agree, fails, dissent := w.tally(ch, w.isWorker, key)
			switch {
			case dissent:
				return viol("finalized-with-dissent", "", "finalized without discrepancy resolution although a primary worker's accepted vote carries a different result; "+ctx), err
			case fails > S:
				return viol("finalized-too-many-failures", "", fmt.Sprintf("finalized without discrepancy resolution with %d failure indications, allowed %d; %s", fails, S, ctx)), err
			case agree < P-S:
				return viol("finalized-below-presence", "", fmt.Sprintf("finalized without discrepancy resolution with %d agreeing primary votes, required %d-%d; %s", agree, P, S, ctx)), err
			}
			st.Inc("probe.finalized_by_unanimity")
			if agree < P {
				st.Inc("probe.finalized_with_stragglers")
			}
			if agree == P-S && S > 0 {
				st.Inc("probe.unanimity_exactly_at_threshold")
			}
			if fails > 0 {
				st.Inc("probe.finalized_with_failures")
				if fails == S {
					st.Inc("probe.failures_exactly_at_allowance")
				}
			}
			if w.rank(ch) > 0 {
				st.Inc("probe.finalized_backup_scheduler")
			}
		case true:
			agree, _, _ := w.tally(ch, w.isBackup, key)
			if 2*agree <= NB {
				return viol("finalized-without-backup-majority", "", fmt.Sprintf("finalized after a discrepancy with %d of %d backup workers voting for exactly that result; %s", agree, NB, ctx)), err
			}
			st.Inc("probe.discrepancy_resolved_by_backup_majority")
			if agree == NB/2+1 {
				st.Inc("probe.majority_exactly_at_threshold")
			}
		}
	case commitment.ErrStillWaiting:
		if timeout {
			return viol("waiting-after-timeout", phase, "the round timer had expired but the round just keeps waiting; "+ctx), err
		}
		if hasTop && !m.disc && (tDissent || tFails > S) && w.rank(top) > 0 {
			st.Inc("probe.backup_scheduler_discrepancy_deferred")
		}
	case commitment.ErrDiscrepancyDetected:
		switch {
		case !timeout:
			st.Inc("probe.early_discrepancy_detected")
		default:
			st.Inc("probe.discrepancy_on_timeout")
		}
		switch {
		case tDissent:
			st.Inc("probe.discrepancy_cause_dissent")
		case hasTop && tFails > S:
			st.Inc("probe.discrepancy_cause_failures")
		default:
			st.Inc("probe.discrepancy_cause_missing_votes")
		}
		if m.disc {
			st.Inc("probe.discrepancy_declared_twice")
		}
	case commitment.ErrNoSchedulerCommitment, commitment.ErrBadSchedulerCommitment, commitment.ErrInsufficientVotes:
		st.Inc("probe.round_failed")
		if !timeout {
			st.Inc("probe.round_failed_before_timeout")
		}
	default:
		return viol("unexpected-outcome", phase, fmt.Sprintf("processing returned %v, which is none of finalized / waiting / discrepancy / failed; %s", err, ctx)), err
	}
	if err != nil && mustFinalize {
		kind := "not-finalized-despite-unanimity"
		if m.disc {
			kind = "not-finalized-despite-backup-majority"
		}
		return viol(kind, out, "the round was not finalized although "+because+"; "+ctx), err
	}
	if mustFinalize {
		st.Inc("probe.completeness_checked")
	}
	if err == commitment.ErrDiscrepancyDetected {
		m.disc = true
	}
	return nil, err
}

func (w *world) endRound() {
	w.st.Distinct("round_schedules", core.Hash64(core.MustJSON(w.k), []byte(strings.Join(w.m.log, " "))))
	w.st.Inc("probe.rounds_ended")
	w.rounds++
	w.lastRound++
	w.pool = commitment.NewPool()
	w.m = newRoundModel(w.lastRound + 1)
}

func (w *world) roundTrip(mode string) *core.Violation {
	var np commitment.Pool
	var b1, b2 []byte
	var err error
	pv, stack := core.Guard(func() {
		switch mode {
		case "json":
			if b1, err = json.Marshal(w.pool); err != nil {
				return
			}
			if err = json.Unmarshal(b1, &np); err != nil {
				return
			}
			b2, err = json.Marshal(&np)
		default:
			b1 = cbor.Marshal(w.pool)
			if err = cbor.Unmarshal(b1, &np); err != nil {
				return
			}
			b2 = cbor.Marshal(&np)
		}
	})
	if pv != nil {
		return viol("panic", "round trip in "+core.PanicSite(stack, "oasis-core/go"), fmt.Sprintf("serialising the pool (%s) panicked: %v\n%s", mode, pv, stack))
	}
	w.st.Event("roundtrip %s %d bytes err=%v", mode, len(b1), err)
	if err != nil {
		return viol("roundtrip-mismatch", mode, fmt.Sprintf("the pool does not survive a %s round trip: %v (%s)", mode, err, w.describe()))
	}
	if !bytes.Equal(b1, b2) {
		return viol("roundtrip-mismatch", mode, fmt.Sprintf("the pool changes in a %s round trip: %s vs %s", mode, b1, b2))
	}
	w.pool = &np
	w.st.Inc("probe.roundtrip_" + mode)
	return nil
}

// Execute implements core.Engine.
func (Engine) Execute(sc *core.Scenario, st *core.Stats) (*core.Violation, bool) {
	var k Knobs
	if err := json.Unmarshal(sc.Knobs, &k); err != nil {
		core.Harnessf("pool: bad knobs: %v", err)
	}
	if k.Primary < 1 || len(k.Backups) < 1 || k.Outsiders < 1 || k.Stragglers < 0 || k.Stragglers > 0xffff {
		core.Harnessf("pool: bad knobs %+v", k)
	}
	fixtures()
	w := &world{k: k, st: st, lastRound: k.Round}
	extra := 0
	seen := map[int]bool{}
	for _, b := range k.Backups {
		if b < 0 || seen[b] {
			core.Harnessf("pool: bad backups %v", k.Backups)
		}
		seen[b] = true
		if b >= k.Primary {
			extra++
		}
	}
	w.members = k.Primary + extra
	w.nodes = w.members + k.Outsiders
	if w.nodes > maxNodes-1 {
		core.Harnessf("pool: too many nodes")
	}
	w.isWorker, w.isBackup = make([]bool, w.nodes), make([]bool, w.nodes)
	w.committee = &scheduler.Committee{Kind: scheduler.KindComputeExecutor, RuntimeID: runtimeID, ValidFor: 1}
	for i := 0; i < k.Primary; i++ {
		w.isWorker[i] = true
		w.committee.Members = append(w.committee.Members, &scheduler.CommitteeNode{Role: scheduler.RoleWorker, PublicKey: signers[i].Public()})
	}
	for _, b := range k.Backups {
		if b >= w.members {
			core.Harnessf("pool: backup ids must be contiguous: %v", k.Backups)
		}
		w.isBackup[b] = true
		w.committee.Members = append(w.committee.Members, &scheduler.CommitteeNode{Role: scheduler.RoleBackupWorker, PublicKey: signers[b].Public()})
	}
	w.rt = &registry.Runtime{
		Versioned:       cbor.NewVersioned(registry.LatestRuntimeDescriptorVersion),
		ID:              runtimeID,
		Kind:            registry.KindCompute,
		TEEHardware:     node.TEEHardwareInvalid,
		GovernanceModel: registry.GovernanceEntity,
		Executor: registry.ExecutorParameters{
			GroupSize: uint16(k.Primary), GroupBackupSize: uint16(len(k.Backups)), AllowedStragglers: uint16(k.Stragglers), MaxMessages: 4,
		},
		Deployments: []*registry.VersionInfo{{}},
	}
	if k.TEE {
		w.rt.TEEHardware = node.TEEHardwareIntelSGX
	}
	w.pool = commitment.NewPool()
	w.m = newRoundModel(w.lastRound + 1)
	st.Event("committee primary=%d backups=%v stragglers=%d round=%d tee=%v", k.Primary, k.Backups, k.Stragglers, k.Round, k.TEE)

	for step, raw := range sc.Ops {
		var op Op
		if err := json.Unmarshal(raw, &op); err != nil {
			core.Harnessf("pool: bad op: %v", err)
		}
		w.now = step
		if v := w.deliverDue(false); v != nil {
			return v, true
		}
		switch op.K {
		case "emit":
			m := msg{round: w.lastRound, variant: op.Var, fail: op.Fail, flaw: op.Flaw, tee: k.TEE}
			switch {
			case op.BadSched > 0:
				m.sched = k.Primary + (op.BadSched-1)%(w.nodes-k.Primary)
			default:
				m.sched = w.workerWithRank(abs(op.Rank))
			}
			m.node = abs(op.Node) % w.nodes
			if op.Self {
				m.node = m.sched
			}
			w.seq++
			st.Event("emit node=%d sched=%d variant=%d fail=%d flaw=%q drop=%v delay=%d dup=%d", m.node, m.sched, m.variant, m.fail, m.flaw, op.Drop, op.Delay, op.Dup)
			if op.Drop {
				st.Inc("fault.drop")
			} else {
				w.queue = append(w.queue, &flight{m: m, due: step + max(op.Delay, 0), seq: w.seq})
			}
			if op.Dup > 0 {
				c := 1
				if op.Drop {
					c = 0
				}
				w.queue = append(w.queue, &flight{m: m, due: step + max(op.Delay, 0) + op.Dup, seq: w.seq, copy: c})
			}
		case "proc":
			if op.Flush {
				if v := w.deliverDue(true); v != nil {
					return v, true
				}
			}
			v, err := w.processOnce(op.Timeout)
			if v != nil {
				return v, true
			}
			if err == commitment.ErrDiscrepancyDetected && op.Retry != 2 {
				// The application immediately retries: resolution may already be possible.
				if v, err = w.processOnce(op.Retry == 1); v != nil {
					return v, true
				}
			}
			switch err {
			case commitment.ErrStillWaiting, commitment.ErrDiscrepancyDetected:
			default:
				// Finalized or failed: the application starts the next round with an empty pool.
				w.endRound()
			}
		case "rt":
			if v := w.roundTrip(op.Mode); v != nil {
				return v, true
			}
		default:
			core.Harnessf("pool: unknown op %q", op.K)
		}
		if v := w.deliverDue(false); v != nil {
			return v, true
		}
	}
	if v := w.deliverDue(true); v != nil {
		return v, true
	}
	st.Distinct("round_schedules", core.Hash64(core.MustJSON(w.k), []byte(strings.Join(w.m.log, " "))))
	if w.rounds > 1 {
		st.Inc("probe.multi_round_scenario")
	}
	shape := []int{k.Primary, len(k.Backups), w.members, k.Stragglers}
	st.Distinct("committee_shapes", core.Hash64(core.MustJSON(shape), core.MustJSON(sortedCopy(k.Backups))))
	st.Sample(3, map[string]interface{}{"knobs": k, "ops": sc.Ops})
	return nil, w.acceptedTotal >= 3 && w.procCalls >= 1
}

func abs(x int) int {
	if x < 0 {
		return -x
	}
	return x
}

func sortedCopy(x []int) []int {
	c := append([]int(nil), x...)
	sort.Ints(c)
	return c
}
