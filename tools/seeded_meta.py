#!/usr/bin/env python3
"""Writes /verif/seeded/<id>/meta.json from the agent's meta, my confirmation results and the
check results recorded in TABLE below, and regenerates DESIGN.md section 8 (between markers)."""
import json, os, re, glob

# id -> (check that catches it, how it was first seen, violation kind reported, strengthening done)
TABLE = {
 "c20-restore-skip": ("C20", "caught", "schedule-incomplete", ""),
 "c01-own-proposal-reuse": ("C01", "caught", "divergence (state root differs on the catch-up replica)", ""),
 "c02-remove-inline-leaf-shortcut": ("C02", "caught", "root-mismatch (committed root still holds the removed key)", ""),
 "c03-insert-empty-after-remove": ("C03", "caught", "get/iteration mismatch against the ordered-map model", ""),
 "c04-fullenc-hash-trusted": ("C04", "missed, then caught", "mutant-proof-fabricates / client-wrong-value",
     "added the Byzantine operator 'fullenc': an internal-node proof entry is replaced by its full encoding (true child hashes embedded) and a leaf below it is forged or dropped"),
 "c05-fee-remainder-vanishes": ("C05", "caught", "supply-not-conserved", ""),
 "c06-unchanged-root-link": ("C06", "caught", "finalized root unreadable after Prune of the previous version", ""),
 "c07-seqno-not-rerecorded": ("C07", "caught", "state-differs-after-retry / panic during recovery (crash at pathbadger.Commit.afterSeqNoCommit)", ""),
 "c08-submitmsg-state-outside-tx": ("C08", "missed, then caught", "failed-tx-changed-signer-account (roothash/11 queue full)",
     "the base workload had no roothash transactions: added base extras (roothash.SubmitMsg against a genesis runtime with a 1-4 slot queue; registry kinds; later vault kinds) mixed into all base-property runs"),
 "c09-nonce-overflow-guard": ("C09", "missed, then caught", "nonce-not-advanced-by-one",
     "genesis accounts now start at boundary nonces (2^64-1-k) in a sixth of the cases"),
 "c10-commission-after-pool-check": ("C10", "caught", "honest-proposal-rejected (BeginBlock fatal: failed depositing commission)", ""),
 "c11-dissent-counted-as-straggler": ("C11", "caught", "finalized-with-dissent", ""),
 "c12-claimed-chunk-not-pending": ("C12", "missed, then caught", "restore-done-while-chunk-in-flight",
     "the concurrent-RestoreChunk step now aims at the end game (all other chunks restored first, the last two interleaved at the hook) and flags a completion reported while another call is still in flight"),
 "c13-pending-entry-replaced": ("C13", "caught", "writelog-wrong-root / apply-rejected-correct-log", ""),
 "c14-maxvalidators-counts-entities": ("C14", "caught", "validator-limits max-validators", ""),
 "c15-slash-total-recomputed": ("C15", "missed, then caught", "slash-unequal-fractions",
     "added the equal-fraction clause: pool balances are advanced event by event through the block so the pools at the moment of the slash are known; |lossA*deb - lossD*act| < max(act, deb)"),
 "c17-runtime-claim-not-moved": ("C17", "caught", "claims-stale runtime", ""),
 "c18-tcb-key-cached-past-expiry": ("C18", "caught", "model-reject-accepted [tcbcert0-expired]", ""),
 "c19-block-time-truncated": ("C19", "caught", "block-accepted-altered [time]", ""),
}
TABLE.update(json.load(open('/verif/seeded/table_extra.json')) if os.path.exists('/verif/seeded/table_extra.json') else {})

rows = []
for d in sorted(glob.glob('/verif/seeded/*/')):
    sid = os.path.basename(d.rstrip('/'))
    if sid not in TABLE:
        continue
    chk, seen, kind, strengthened = TABLE[sid]
    agent = {}
    if os.path.exists(d + 'meta.agent.json'):
        try:
            agent = json.load(open(d + 'meta.agent.json'))
        except Exception:
            agent = {}
    confirm = json.load(open(d + 'confirm.json')) if os.path.exists(d + 'confirm.json') else {}
    full = json.load(open(d + 'fullsuite.json')) if os.path.exists(d + 'fullsuite.json') else None
    meta = {
        "id": sid,
        "property": agent.get("property", chk),
        "summary": agent.get("summary", ""),
        "needs_to_manifest": agent.get("needs", ""),
        "files": sorted(f for f in os.listdir(d) if f not in ("meta.json",)),
        "origin": "independent sub-agent given only the property text and a scratch worktree",
        "confirmed_by_me": {
            "how": "tools/confirm_seeded.sh in the scratch worktree: demonstration with the change / without it, go build ./..., go test of the touched packages with the change",
            **confirm,
            "full_pinned_suite_with_change": full if full else "see DESIGN.md section 8",
        },
        "checked_with": "tools/trymut.sh: git -C /repo apply patch.diff; ./check %s quick; git -C /repo checkout -- ." % chk,
        "result": {"check": chk, "outcome": seen, "violation_reported": kind, "strengthening": strengthened},
    }
    json.dump(meta, open(d + 'meta.json', 'w'), indent=1)
    s = agent.get("summary", "")
    s = re.sub(r'\s+', ' ', s)
    rows.append((sid, chk, seen, kind, strengthened, s[:260] + ('…' if len(s) > 260 else '')))

md = ["| seeded change | what it does | check | outcome | reported as | strengthening |", "|---|---|---|---|---|---|"]
for sid, chk, seen, kind, st, s in rows:
    md.append("| `%s` | %s | %s | %s | %s | %s |" % (sid, s.replace('|', '/'), chk, seen, kind.replace('|', '/'), st.replace('|', '/') or "—"))
n_missed = sum(1 for r in rows if r[2].startswith("missed"))
n_open = sum(1 for r in rows if r[2] == "missed")
summary = "%d seeded changes: %d caught by the checks as they stood, %d missed at first and caught after the strengthening named in the last column, %d still missed." % (len(rows), len(rows) - n_missed, n_missed - n_open, n_open)
block = "<!-- SEEDED-TABLE-BEGIN -->\n" + summary + "\n\n" + "\n".join(md) + "\n<!-- SEEDED-TABLE-END -->"
p = '/verif/DESIGN.md'
t = open(p).read()
if '<!-- SEEDED-TABLE-BEGIN -->' in t:
    t = re.sub(r'<!-- SEEDED-TABLE-BEGIN -->.*?<!-- SEEDED-TABLE-END -->', lambda m: block, t, flags=re.S)
else:
    t += "\n## 8. Seeded property-breaking changes and which checks catch them\n\nEach change was produced by a fresh sub-agent that saw only the property text and a scratch\nworktree of the repository; it compiles, passes the tests of the touched packages (and the pinned\nsuite, see the per-change `meta.json`), needs something specific to manifest, and comes with a\ndemonstration that fails with it and passes without it.  `tools/trymut.sh` applies it to /repo,\nruns the quick check and reverts.  \"missed, then caught\" = the check as it stood missed the change\nand was strengthened (last column); the change is caught now.\n\n" + block + "\n"
open(p, 'w').write(t)
print(len(rows), "rows")
