#!/usr/bin/env python3
"""Generate /verif/MANIFEST.json from the table below (kept in one place so that it is always valid)."""
import json, subprocess, os

V = os.path.dirname(os.path.dirname(os.path.abspath(__file__)))
hooks = subprocess.run(["git", "-C", "/repo", "log", "--format=%h %s", "--grep=^verif:"], capture_output=True, text=True).stdout.strip().split("\n")

# id -> dict(level, text, note, technique, engine, design_ref)
CHECKS = {}
NA = {}

def chk(id, level, text, note, technique, engine, ref):
    CHECKS[id] = dict(level=level, text=text, note=note, technique=technique, engine=engine, ref=ref)

exec(open(os.path.join(V, "tools", "manifest_table.py")).read())

props = [json.loads(l) for l in open(os.path.join(V, "properties.jsonl"))]
checks, na = [], []
for p in props:
    i = p["id"]
    if i in CHECKS:
        c = CHECKS[i]
        checks.append({
            "property_id": i,
            "quick_cmd": f"./check {i} quick",
            "thorough_cmd": f"./check {i} thorough",
            "evidence_file": f"/verif/evidence/{i}.json",
            "replay_cmd_template": "./check replay {path}",
            "engine": c["engine"],
            "level_claimed": {"category": c["level"], "text": c["text"], "design_ref": c["ref"]},
            "level_note": c["note"],
            "technique": c["technique"],
        })
    else:
        na.append({"property_id": i, "reason": NA.get(i, "not yet decided by the machinery in this commit (work in progress); no claim is made")})

m = {
    "version": 1,
    "setup_cmd": "./check setup",
    "hooks": {
        "guard": "verif (Go build tag)",
        "enable": "go build -tags verif (the ./check driver builds sim/cmd/verifsim against /repo/go with -tags verif; without the tag verifhook.At is an empty function and the *_verif.go export shims are not compiled)",
        "baseline_off_cmd": "for m in go tests/upgrade/post tests/upgrade/pre; do (cd /repo/$m && go test -mod=mod -vet=off -count=1 -timeout 25m ./...); done",
        "source_commits": [h.split()[0] for h in hooks if h],
        "add_only": True,
    },
    "engines": ENGINES,
    "checks": checks,
    "not_applicable": na,
    "notes": NOTES,
}
json.dump(m, open(os.path.join(V, "MANIFEST.json"), "w"), indent=1)
print("checks:", [c["property_id"] for c in checks], "na:", [n["property_id"] for n in na])
