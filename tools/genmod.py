#!/usr/bin/env python3
"""Generate the harness go.mod from the repository's go.mod (full require/replace blocks are
needed, otherwise -mod=mod attempts network lookups)."""
import sys, re
src = open(sys.argv[1]).read()
repo_go = sys.argv[2]
out = ["module verif/sim", ""]
m = re.search(r'^go\s+\S+', src, re.M)
out.append(m.group(0))
out.append("")
for blk in re.findall(r'^(require|replace) \((.*?)^\)', src, re.M | re.S):
    out.append("%s (%s)" % blk)
    out.append("")
for line in re.findall(r'^(?:require|replace) [^(\n]+$', src, re.M):
    out.append(line)
out.append("require github.com/oasisprotocol/oasis-core/go v0.0.0")
out.append("replace github.com/oasisprotocol/oasis-core/go => " + repo_go)
print("\n".join(out))
