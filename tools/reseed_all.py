#!/usr/bin/env python3
"""Re-runs every stored seeded change against the check that is recorded as catching it
(tools/trymut.sh: scratch copy of /repo, quick tier) and writes seeded/regression.json."""
import json, glob, os, subprocess, sys, time
only = sys.argv[1:]
out = {}
if only and os.path.exists('/verif/seeded/regression.json'):
    out = json.load(open('/verif/seeded/regression.json'))  # partial re-run: keep the other entries
for d in sorted(glob.glob('/verif/seeded/*/')):
    sid = os.path.basename(d.rstrip('/'))
    if only and sid not in only:
        continue
    try:
        meta = json.load(open(d + 'meta.json'))
    except Exception:
        continue
    chk = meta['result']['check']
    t0 = time.time()
    r = subprocess.run(['/verif/tools/trymut.sh', d + 'patch.diff', chk], capture_output=True, text=True)
    lines = [l for l in r.stdout.splitlines() if 'VIOLATION' in l or 'verifsim: runs' in l or 'HARNESS' in l or 'does not apply' in l]
    caught = any('VIOLATION' in l for l in lines)
    kinds = sorted({l.split('replays/')[1].rsplit('-', 1)[0] for l in lines if 'replays/' in l})
    out[sid] = {'check': chk, 'caught': caught, 'kinds': kinds, 'seconds': round(time.time() - t0), 'note': [l[:160] for l in lines if 'HARNESS' in l or 'does not apply' in l]}
    print(sid, chk, 'CAUGHT' if caught else 'MISSED', kinds, flush=True)
    json.dump(out, open('/verif/seeded/regression.json', 'w'), indent=1)
