#!/opt/veriftools/pyvenv/bin/python
import json, jsonschema, glob, sys
m=json.load(open('/verif/MANIFEST.json')); s=json.load(open('/root/.vp/MANIFEST.schema.json'))
jsonschema.validate(m,s); print("manifest valid")
es=json.load(open('/root/.vp/EVIDENCE.schema.json'))
for f in sorted(glob.glob('/verif/evidence/*.json')):
    e=json.load(open(f))
    try:
        jsonschema.validate(e,es); print(f, "valid", e["tier"], "evals", e["coverage"].get("evaluations"), "distinct", e["coverage"].get("distinct_nontrivial"))
    except Exception as ex:
        print(f, "INVALID", str(ex)[:300]); sys.exit(1)
