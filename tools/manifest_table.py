# Table consumed by genmanifest.py (exec'd).
ENGINES = [
    {"name": "simqueue", "path": "sim/queue", "serves_properties": ["C20"],
     "kind_free_text": "deterministic simulation of submitter / scheduler / block-watcher actors interleaved over the real runtime txpool main queue, lock-step reference model"},
]
NOTES = ("All checks are seeded deterministic simulations (VERIF_SEED -> splitmix64 -> scenario; execution draws nothing). "
         "Replay files are the minimised scenarios under /verif/replays. Exit 2 = harness/build trouble, never a violation. "
         "known_findings.json lists genuine defects found (two in runtime/txpool, both repaired by fix: commits).")

chk("C20", "exploration",
    "Seeded search over interleavings of add / schedule / schedule-extra / reset / transaction-used / sender-forward operations by three simulated actor kinds on the real main queue; after every operation the pool's contents and every returned schedule are compared with a literal reference model that admits only the nondeterminism the property allows (order among equal priorities), plus independently stated invariants (sender prefix rule, no duplicate, highest-priority-ready next, capacity, strict replacement). Sequence numbers are biased to the 2^63 and 2^64-1 boundaries.",
    "Trusted: the export shim (thin wrappers), the reference model in sim/queue. Assumes the runtime reports monotone sender state sequences. Real goroutine interleaving is not explored: the queue's single mutex makes every concurrent execution equivalent to one of the simulated operation orders.",
    "deterministic simulation: seeded operation interleavings vs. lock-step reference model, ddmin-minimised replay",
    "simqueue", "DESIGN.md §3 C20")
