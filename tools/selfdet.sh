#!/bin/bash
# usage: selfdet.sh <PROP> [N=48] [tier=quick] — executes the first N runs of every batch of the
# property in fresh processes under GOMAXPROCS 1, 4 and 16 (and a second time under 16) and
# compares the per-run event-log hashes. Exit 0 = all equal.
set -u
P=$1; N=${2:-48}; T=${3:-quick}
cd /verif && ./check setup >/dev/null || exit 2
BIN=$(ls -t sim/bin/verifsim-* | head -1)
d=$(mktemp -d /dev/shm/selfdet-XXXX)
i=0
for g in 1 4 16 16; do
  i=$((i+1))
  GOMAXPROCS=$g VERIF_DIR=/verif VERIF_SCRATCH=$d/s$i $BIN worker --prop $P --tier $T --seed ${VERIF_SEED:-1} --w 0 --W 1 --hash-first $N --only-hashed --out $d/r$i.json 2>$d/err$i.log &
done
wait
python3 - $d <<'PY'
import json,sys
d=sys.argv[1]
rs=[json.load(open(f'{d}/r{i}.json')) for i in range(1,5)]
for r in rs:
    if r.get('harness_err'): print('HARNESS', r['harness_err']); sys.exit(2)
h=[r['run_hashes'] for r in rs]
keys=sorted(h[0]); bad=[k for k in keys if len({x.get(k) for x in h})!=1]
print(f'{len(keys)} runs hashed x 4 processes (GOMAXPROCS 1,4,16,16): {len(bad)} mismatches', bad[:10])
sys.exit(1 if bad else 0)
PY
rc=$?
rm -rf $d
exit $rc
