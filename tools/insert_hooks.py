#!/usr/bin/env python3
"""Insert verifhook.At(...) call sites (add-only) into a Go file.

usage: insert_hooks.py FILE  < spec
spec lines:  <func-signature-substring> ||| <anchor line substring> ||| <occurrence within func, 1-based> ||| <hook name> ||| after|before
The anchor is a statement start; for `after`, the hook is inserted after the end of the
`if err ... { ... }` block that starts at the anchor line (matching braces) or after the line
itself when it does not open a block.
"""
import sys, re

path = sys.argv[1]
src = open(path).read().split('\n')
specs = [l.strip() for l in sys.stdin if l.strip() and not l.startswith('#')]

def find_func(sig):
    for i, l in enumerate(src):
        if l.startswith('func ') and sig in l:
            return i
    raise SystemExit(f'func not found: {sig}')

def func_end(i):
    for j in range(i + 1, len(src)):
        if src[j] == '}':
            return j
    raise SystemExit('no func end')

for spec in specs:
    sig, anchor, occ, name, where = [x.strip() for x in spec.split('|||')]
    occ = int(occ)
    fi = find_func(sig)
    fe = func_end(fi)
    hits = [k for k in range(fi, fe) if anchor in src[k] and 'verifhook' not in src[k]]
    if len(hits) < occ:
        raise SystemExit(f'anchor not found: {spec} (hits={len(hits)})')
    k = hits[occ - 1]
    indent = re.match(r'\s*', src[k]).group(0)
    call = f'{indent}verifhook.At("{name}")'
    if where == 'before':
        src.insert(k, call)
        continue
    # after: find end of block if line opens one
    depth = src[k].count('{') - src[k].count('}')
    e = k
    while depth > 0:
        e += 1
        depth += src[e].count('{') - src[e].count('}')
    src.insert(e + 1, call)

text = '\n'.join(src)
imp = '\t"github.com/oasisprotocol/oasis-core/go/common/verifhook"'
if imp not in text:
    # insert import in sorted position among oasis-core imports
    lines = text.split('\n')
    idxs = [i for i, l in enumerate(lines) if l.startswith('\t"github.com/oasisprotocol/oasis-core/go/')]
    pos = None
    for i in idxs:
        if lines[i] > imp:
            pos = i
            break
    if pos is None:
        pos = idxs[-1] + 1
    lines.insert(pos, imp)
    text = '\n'.join(lines)
open(path, 'w').write(text)
