#!/usr/bin/env python3
"""usage: fullsuite.py <repo-or-worktree> [out.json]
Runs the pinned test-suite command (go test -json -vet=off -count=1 ./... in go/) in the
given tree and reports which of the 1259 baseline tests did not pass."""
import json, os, subprocess, sys
wt = sys.argv[1]
out = sys.argv[2] if len(sys.argv) > 2 else None
base = json.load(open('/root/.vp/BASELINE.json'))
stable = base['stable_pass']
if isinstance(stable, str):
    import ast
    stable = ast.literal_eval(stable)
stable = set(stable)
env = dict(os.environ, GOFLAGS='-mod=mod', GOPROXY='off')
env.pop('GOSUMDB', None)
p = subprocess.Popen(['go', 'test', '-json', '-vet=off', '-count=1', '-timeout', '25m', './...'],
                     cwd=os.path.join(wt, 'go'), env=env, stdout=subprocess.PIPE, stderr=subprocess.DEVNULL, text=True)
res = {}
for line in p.stdout:
    try:
        ev = json.loads(line)
    except Exception:
        continue
    if ev.get('Test') and ev.get('Action') in ('pass', 'fail', 'skip'):
        res[ev['Package'] + '::' + ev['Test']] = ev['Action']
p.wait()
notpass = sorted(t for t in stable if res.get(t) != 'pass')
first_notpass = list(notpass)
# Load flakiness (timing-based tests on a busy machine): re-run the top-level tests of the
# not-passed entries on their own, up to 3 times; a test that passes once is not blamed.
for attempt in range(3):
    if not notpass:
        break
    tops = sorted({(t.split('::')[0], t.split('::')[1].split('/')[0]) for t in notpass})
    for pkg, top in tops:
        q = subprocess.Popen(['go', 'test', '-json', '-vet=off', '-count=1', '-timeout', '25m', '-run', '^' + top + '$', pkg],
                             cwd=os.path.join(wt, 'go'), env=env, stdout=subprocess.PIPE, stderr=subprocess.DEVNULL, text=True)
        r2 = {}
        for line in q.stdout:
            try:
                ev = json.loads(line)
            except Exception:
                continue
            if ev.get('Test') and ev.get('Action') in ('pass', 'fail', 'skip'):
                r2[ev['Package'] + '::' + ev['Test']] = ev['Action']
        q.wait()
        for t, a in r2.items():
            if a == 'pass':
                res[t] = 'pass'
    notpass = sorted(t for t in stable if res.get(t) != 'pass')
summary = {'baseline_tests': len(stable), 'passed_of_baseline': len(stable) - len(notpass), 'not_passed': notpass[:50], 'not_passed_in_first_run_but_passed_on_isolated_rerun': [t for t in first_notpass if t not in notpass][:80]}
print(json.dumps(summary, indent=1))
if out:
    json.dump(summary, open(out, 'w'), indent=1)
sys.exit(0 if not notpass else 1)
