#!/usr/bin/env python3
"""Print the prompt for an independent property-breaking sub-agent (it gets only the property text and a worktree)."""
import json, sys
pid, wt, variant = sys.argv[1], sys.argv[2], (sys.argv[3] if len(sys.argv) > 3 else "")
p = [json.loads(l) for l in open('/verif/properties.jsonl') if json.loads(l)['id'] == pid][0]
print(f"""You are a software engineer testing the strength of a verification effort. You work ONLY inside the git worktree {wt} (a checkout of the oasis-core repository, Go module in {wt}/go). Do not read or write anything under /verif or /repo, and do not use any information about how the property is verified elsewhere: your change must be independent.

THE PROPERTY (call it {pid}): {p['title']}
Statement: {p['statement']}
Quantified over: {p['quantifier']['text']}
Code anchors (files under go/ mostly): {', '.join(p['anchors']['files'])}
Mechanisms meant to make it hold: {'; '.join(m['name'] + ' [' + m.get('where','') + ']' for m in p['anchors']['mechanism'])}

YOUR TASK: produce ONE realistic change to the source code in {wt} that BREAKS this property while the repository still compiles and the existing test suite still passes. {variant}
Requirements for the change:
- It must need something SPECIFIC to manifest: a particular interleaving, a crash or fault at a particular point, a multi-step sequence of operations, an unusual but legal input, or two cooperating sites that each look fine alone. It must NOT be exposed at once by ordinary use (e.g. not "always return an error", not something every existing test would hit).
- It should look like a plausible mistake or an innocent-looking refactoring/optimisation a developer could make (off-by-one, dropped condition in a rare branch, wrong variable, reordered writes, skipped cleanup, cached value not invalidated, boundary comparison, etc.), small (a few lines), in non-test code, not guarded by build tags, and not touching any file named *_verif.go or the package go/common/verifhook (you may leave the existing verifhook.At(...) call lines where they are; do not add or remove them).
- The existing tests must still pass: at least `go build ./...` and `go vet` of the touched packages in {wt}/go, and `go test -count=1` of every package you touched and of the packages that directly use the changed code (use: cd {wt}/go && GOFLAGS=-mod=mod GOPROXY=off go test -count=1 ./path/...). Note: the machine is heavily loaded; timing-based tests (e.g. storage/mkvs/checkpoint TestCheckpointer) may fail for load reasons even without your change — verify by comparing with and without your change before blaming it. NEVER use `git stash` (the stash is shared between worktrees of this repository and other people use it): save your change with `git diff > demo/patch.diff` and switch with `git apply -R demo/patch.diff` / `git apply demo/patch.diff`.
- Provide a DEMONSTRATION: a new Go test file (or small program) that FAILS (or shows the broken property) with your change and PASSES without it. Put it at {wt}/demo/ (e.g. {wt}/demo/demo_test.go copied next to the package under test when it needs package-internal access — say exactly where it must be placed and the exact command to run it). Verify both directions yourself (with the change: fails; after `git apply -R demo/patch.diff`: passes; then re-apply).

DELIVERABLES (write them into {wt}/demo/): patch.diff (output of `git diff` for the source change only, no demo files; it must apply with `git apply` to a clean checkout of the same commit), the demonstration file(s), and meta.json with keys: property ("{pid}"), summary (what the change does, one or two sentences), needs (what specific interleaving / crash point / input / sequence is needed for it to manifest), demo_cmd (exact command to run the demonstration from {wt}/go or {wt}), tests_run (list of the test commands you ran and their outcome).
Leave the source change applied in the worktree (uncommitted) when you finish. Do not commit. Final answer: a brief description of the change, why it breaks the property, what it needs to manifest, and the commands you ran.""")
