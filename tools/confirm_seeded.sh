#!/bin/bash
# usage: confirm_seeded.sh <seeded-id> <worktree> <pkg-dir-for-demo (relative to go/)> <demo-file> <go test -run pattern> [extra test packages...]
# Confirms in the scratch worktree: with the change the demo fails, without it passes; touched
# package tests pass with the change. Then stores patch, demo and meta under /verif/seeded/<id>/.
set -u
id=$1; wt=$2; pkg=$3; demo=$4; pat=$5; shift 5
export GOFLAGS="${SEED_GOFLAGS:--mod=mod}" GOPROXY=off
cd $wt || exit 2
git checkout -q -- . ; git apply demo/patch.diff || { echo "patch does not apply"; exit 2; }
cp demo/$demo go/$pkg/zz_demo_verif_test.go
(cd go && go test -count=1 -run "$pat" ./$pkg/ > /tmp/seeded-$id-with.log 2>&1); with=$?
git checkout -q -- . 
(cd go && go test -count=1 -run "$pat" ./$pkg/ > /tmp/seeded-$id-without.log 2>&1); without=$?
rm -f go/$pkg/zz_demo_verif_test.go
git apply demo/patch.diff
(cd go && go build ./... > /tmp/seeded-$id-build.log 2>&1); build=$?
(cd go && go test -count=1 ./$pkg/... "$@" > /tmp/seeded-$id-tests.log 2>&1); tests=$?
echo "demo with change: exit $with (expect != 0); without: exit $without (expect 0); build: $build; package tests with change: $tests"
mkdir -p /verif/seeded/$id
cp demo/patch.diff demo/$demo /verif/seeded/$id/
cp demo/meta.json /verif/seeded/$id/meta.agent.json 2>/dev/null
echo "{\"demo_with_change_exit\": $with, \"demo_without_change_exit\": $without, \"build_exit\": $build, \"package_tests_with_change_exit\": $tests}" > /verif/seeded/$id/confirm.json
grep -E "^(ok|FAIL|---)" /tmp/seeded-$id-tests.log | head -20
