#!/bin/bash
# usage: trymut.sh <patch> <ID> [tier] — applies the patch to /repo, runs the check, reverts.
set -u
cd /repo && git status --short | grep -v '^??' | head -1 | grep -q . && { echo "/repo not clean"; exit 2; }
git apply "$1" || { echo "patch does not apply"; exit 2; }
cd /verif && VERIF_RUN_TIMEOUT_S=120 ./check "$2" "${3:-quick}" 2>&1 | grep -v '^{' | grep "verifsim: runs\|VIOLATION\|HARNESS\|detail\|KNOWN" | cut -c1-500
git -C /repo checkout -- .
