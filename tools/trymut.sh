#!/bin/bash
# usage: trymut.sh <patch> <ID> [tier] — applies the patch to a scratch copy of /repo (HEAD plus
# working tree), runs the check against it (VERIF_REPO), and removes the copy. /repo itself is not
# touched, so background sweeps that rebuild from /repo are not disturbed. Evidence and replay
# files written by the mutated run are discarded (evidence restored from a copy).
set -u
scratch=/tmp/trymut-repo-$$
rm -rf $scratch; cp -a /repo $scratch || exit 2
(cd $scratch && git apply "$1") || { echo "patch does not apply"; rm -rf $scratch; exit 2; }
cd /verif
cp evidence/$2.json /tmp/evidence-$2.keep.$$ 2>/dev/null
ls replays > /tmp/replays-before-$2.$$.txt
VERIF_REPO=$scratch VERIF_RUN_TIMEOUT_S=900 ./check "$2" "${3:-quick}" 2>&1 | grep -v '^{' | grep "verifsim: runs\|VIOLATION\|HARNESS\|detail\|KNOWN" | cut -c1-500
[ -f /tmp/evidence-$2.keep.$$ ] && mv /tmp/evidence-$2.keep.$$ evidence/$2.json
for f in $(ls replays); do grep -qx "$f" /tmp/replays-before-$2.$$.txt || rm -f "replays/$f"; done
rm -f /tmp/replays-before-$2.$$.txt
h=$(echo -n $scratch | md5sum | cut -c1-8)
rm -rf $scratch sim/bin/verifsim-$h sim/go-$h.mod sim/go-$h.sum
