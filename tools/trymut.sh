#!/bin/bash
# usage: trymut.sh <patch> <ID> [tier] — applies the patch to /repo, runs the check, reverts.
# Evidence and replay files written by the mutated run are discarded (evidence restored from a copy).
set -u
cd /repo && git status --short | grep -v '^??' | head -1 | grep -q . && { echo "/repo not clean"; exit 2; }
git apply "$1" || { echo "patch does not apply"; exit 2; }
cd /verif
cp evidence/$2.json /tmp/evidence-$2.keep 2>/dev/null
ls replays > /tmp/replays-before-$2.txt
VERIF_RUN_TIMEOUT_S=900 ./check "$2" "${3:-quick}" 2>&1 | grep -v '^{' | grep "verifsim: runs\|VIOLATION\|HARNESS\|detail\|KNOWN" | cut -c1-500
git -C /repo checkout -- .
[ -f /tmp/evidence-$2.keep ] && mv /tmp/evidence-$2.keep evidence/$2.json
for f in $(ls replays); do grep -qx "$f" /tmp/replays-before-$2.txt || rm -f "replays/$f"; done
rm -f /tmp/replays-before-$2.txt
