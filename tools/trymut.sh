#!/bin/bash
# usage: trymut.sh <patch> <ID> [tier] — applies the patch to a scratch copy of /repo (HEAD plus
# working tree), runs the check against it (VERIF_REPO), and removes the copy. /repo itself is not
# touched, so background sweeps that rebuild from /repo are not disturbed. Evidence and replay
# files of the mutated run go to a scratch output directory (VERIF_OUT) and are discarded, so
# several of these can run at the same time and /verif/evidence is never touched.
set -u
scratch=/tmp/trymut-repo-$$
out=/tmp/trymut-out-$$
rm -rf $scratch $out; cp -a /repo $scratch || exit 2
(cd $scratch && git apply "$1") || { echo "patch does not apply"; rm -rf $scratch; exit 2; }
mkdir -p $out/evidence $out/replays; cp /verif/known_findings.json $out/; cp -r /verif/regress $out/
cd /verif
VERIF_OUT=$out VERIF_REPO=$scratch VERIF_RUN_TIMEOUT_S=900 ./check "$2" "${3:-quick}" 2>&1 | grep -v '^{' | grep "verifsim: runs\|VIOLATION\|HARNESS\|detail\|KNOWN" | cut -c1-500 | sed "s#$out/#/verif/#"
h=$(echo -n $scratch | md5sum | cut -c1-8)
rm -rf $scratch $out sim/bin/verifsim-$h sim/go-$h.mod sim/go-$h.sum sim/bin/.lock-$h
